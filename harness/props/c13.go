package props

import (
	"fmt"
	"strings"
	"unicode"

	"github.com/osteele/liquid"

	"verif/harness/core"
	"verif/harness/gen"
	"verif/harness/ref"
)

func init() {
	core.Register(&core.Prop{
		ID:    "C13",
		Level: "exploration",
		Rule: "PRNG base templates (objects, plain tags incl. application-defined tags without arguments, block/clause/end tags, loops, capture, comment/raw, whitespace-rich literal text of spaces, tabs, LF, CRLF and non-whitespace) are tokenised by the frozen reference tokenizer; up to 10 hyphen slots (left/right side of a tag or object outside raw/comment bodies) are chosen and ALL 2^k subsets rendered. Weak law (every subset): output with every whitespace character deleted equals that of the hyphen-free template. Strong law (every subset; a hyphen facing another tag or object contributes nothing): output equals the output of the hyphen-free template with the adjacent whitespace run deleted from the neighbouring text token. Non-trivial = a non-empty subset whose output differs from the hyphen-free output; distinct = distinct (template, subset).",
		Exhaustive: func(string) bool { return true },
		Assumptions: []string{
			"templates only print captured/assigned text (trimmed whitespace inside a capture never reaches a filter or comparison), otherwise the weak law would not follow from the statement",
			"a hyphen that faces another tag or an object strips nothing (no literal text is adjacent to it); for a hyphen facing a raw body both readings (edge whitespace kept / stripped) are accepted",
		},
		MinEvents: map[string]int64{"strong_law_checked": 1000, "weak_law_checked": 10000},
		Run:       runC13,
	})
}

func stripWS(s string) string {
	return strings.Map(func(r rune) rune {
		if unicode.IsSpace(r) {
			return -1
		}
		return r
	}, s)
}

type c13slot struct {
	tok  int  // token index
	left bool // left or right delimiter
	// strong-law classification
	facesText int  // index of the adjacent text token, -1 = template boundary, -2 = faces a tag/object
	opaque    int  // 0 no; 1 faces a comment body (renders nothing: the hyphen has no effect); 2 faces a raw body
	bodyTok   int  // for opaque == 2: the adjacent body token (its edge whitespace may or may not be stripped)
}

func runC13(c *core.Ctx) {
	// four engines that all have the default delimiters: untouched, and configured through Delims with empty strings
	// (which stand for the defaults) in all or some positions
	var engines []*liquid.Engine
	for _, d := range [][4]string{{}, {"", "", "", ""}, {"{{", "}}", "", ""}, {"", "", "{%", "%}"}} {
		en := liquid.NewEngine()
		if len(engines) > 0 {
			en.Delims(d[0], d[1], d[2], d[3])
		}
		RegisterCustom(en) // {% xecho %} without arguments: a hyphen inside such a tag must stay a trim marker
		engines = append(engines, en)
	}
	c13Partials(c, engines[0])
	n := c.Pick(700, 14000)
	for i := 0; i < n; i++ {
		if !c.Mine(i) {
			continue
		}
		e := engines[(i/c.NShards)%len(engines)]
		c.Obs(fmt.Sprintf("engine_variant_%d", (i/c.NShards)%len(engines)), 1)
		r := c.Rand(i)
		env := gen.StdEnv(r)
		f := gen.Features{Loops: true, Tablerow: i%7 == 0, Cycle: true, Capture: true, Assign: true, Case: true, RawComment: true, Filters: true,
			NoVarReuse: true, WSText: true, MaxDepth: 3, MaxNodes: 9, Probe: "xecho"}
		g := gen.NewG(r, f, env)
		prog := g.Program()
		prog = append(prog, gen.Text{S: " "}, gen.Out{E: gen.Var{Name: "c1"}}, gen.Text{S: "\n"}, gen.Out{E: gen.Var{Name: "c2"}})
		if !r.P(1, 3) {
			prog = append(prog, gen.Text{S: "\tend \n"})
		} // else the template ends with an object: a right hyphen there faces the end of the template, and must not be remembered beyond it
		if r.Bool() {
			prog = append([]gen.Node{gen.Text{S: " \n start\t"}}, prog...)
		}
		if r.P(1, 6) {
			// very long literal text (several KiB) next to tags, with and without white space at its ends
			long := strings.Repeat("long-text/", 450)
			prog = append(prog, gen.Text{S: " \n" + long}, gen.Out{E: gen.Var{Name: "n"}}, gen.Text{S: long + "\t "}, gen.Out{E: gen.Var{Name: "s"}}, gen.Text{S: "  " + long + long + " "})
		}
		if r.P(1, 3) {
			prog = append(prog, gen.Text{S: " x "}, gen.PlainTag{Name: "xecho"}, gen.Text{S: " \n"}, gen.PlainTag{Name: "xinfo"}, gen.Text{S: " y"})
		}
		base := gen.DefaultStyle.Source(prog)
		toks := ref.Tokens(base, ref.DefaultDelims)
		// the base must tokenise as printed (no hyphens, text preserved)
		var sb strings.Builder
		for _, t := range toks {
			sb.WriteString(t.Src)
		}
		if sb.String() != base {
			c.Skip("base does not re-tokenise")
			continue
		}
		// collect slots
		var slots []c13slot
		opaque := ""
		inBody := make([]bool, len(toks))
		for ti, t := range toks {
			if opaque != "" {
				if t.Kind == ref.Tag && t.Name == "end"+opaque {
					opaque = ""
				} else {
					inBody[ti] = true
					continue
				}
			} else if t.Kind == ref.Tag && (t.Name == "raw" || t.Name == "comment") {
				opaque = t.Name
			}
		}
		for ti, t := range toks {
			if t.Kind == ref.Text || inBody[ti] {
				continue
			}
			for _, left := range []bool{true, false} {
				s := c13slot{tok: ti, left: left}
				adj := ti + 1
				if left {
					adj = ti - 1
				}
				switch {
				case adj < 0 || adj >= len(toks):
					s.facesText = -1
				case inBody[adj] || !left && t.Kind == ref.Tag && (t.Name == "raw" || t.Name == "comment") ||
					left && t.Kind == ref.Tag && (t.Name == "endraw" || t.Name == "endcomment"):
					s.facesText, s.opaque = -3, 1
					if strings.HasSuffix(t.Name, "raw") {
						s.opaque, s.bodyTok = 2, -1
						if inBody[adj] && toks[adj].Kind == ref.Text {
							s.bodyTok = adj
						}
					}
				case toks[adj].Kind == ref.Text:
					s.facesText = adj
				default:
					// another tag or object - a whole comment block included, which renders nothing but is not literal
					// whitespace either: the text on its other side is not adjacent to the hyphen
					s.facesText = -2
				}
				slots = append(slots, s)
			}
		}
		if len(slots) == 0 {
			c.Skip("no slots")
			continue
		}
		// choose up to 10 slots
		perm := r.Perm(len(slots))
		k := len(slots)
		if k > 10 {
			k = 10
		}
		chosen := make([]c13slot, k)
		for j := 0; j < k; j++ {
			chosen[j] = slots[perm[j]]
		}
		if !c.Begin("base:" + base + " env=" + env.String()) {
			continue
		}
		b := gen.CanonEnv(env)
		r0 := core.Run(e, base, b)
		c.Eval(1)
		if r0.Panic != "" {
			c.Violate("base-panic|"+r0.Site, "the hyphen-free template panicked", map[string]any{"source": base, "bindings": env.String(), "observed": r0.Brief()})
			continue
		}
		// build(S, transform): source with hyphens for S; or the hyphen-free source with adjacent whitespace deleted
		build := func(mask int, transform bool, rawStrip int) string {
			l, rr := make([]bool, len(toks)), make([]bool, len(toks))
			cutSuffix, cutPrefix := make([]bool, len(toks)), make([]bool, len(toks))
			bodyCutSuffix, bodyCutPrefix := make([]bool, len(toks)), make([]bool, len(toks))
			for j, s := range chosen {
				if mask&(1<<j) == 0 {
					continue
				}
				if s.left {
					l[s.tok] = true
					if s.facesText >= 0 {
						cutSuffix[s.facesText] = true
					}
					if s.opaque == 2 && s.bodyTok >= 0 && rawStrip&(1<<j) != 0 {
						bodyCutSuffix[s.bodyTok] = true
					}
				} else {
					rr[s.tok] = true
					if s.facesText >= 0 {
						cutPrefix[s.facesText] = true
					}
					if s.opaque == 2 && s.bodyTok >= 0 && rawStrip&(1<<j) != 0 {
						bodyCutPrefix[s.bodyTok] = true
					}
				}
			}
			var out strings.Builder
			for ti, t := range toks {
				src := t.Src
				switch {
				case t.Kind == ref.Text:
					if transform && !inBody[ti] {
						if cutPrefix[ti] {
							src = strings.TrimLeftFunc(src, unicode.IsSpace)
						}
						if cutSuffix[ti] {
							src = strings.TrimRightFunc(src, unicode.IsSpace)
						}
					}
					if transform && inBody[ti] {
						if bodyCutPrefix[ti] {
							src = strings.TrimLeftFunc(src, unicode.IsSpace)
						}
						if bodyCutSuffix[ti] {
							src = strings.TrimRightFunc(src, unicode.IsSpace)
						}
					}
				case !transform && !inBody[ti]:
					if l[ti] {
						src = src[:2] + "-" + src[2:]
					}
					if rr[ti] {
						src = src[:len(src)-2] + "-" + src[len(src)-2:]
					}
				}
				out.WriteString(src)
			}
			return out.String()
		}
		if i%97 == 3 {
			c.Sample(map[string]any{"base": base, "slots": k, "one_subset": build((1<<k)-1, false, 0)})
		}
		for mask := 1; mask < 1<<k; mask++ {
			src := build(mask, false, 0)
			rs := core.Run(e, src, b)
			c.Eval(1)
			c.Obs("weak_law_checked", 1)
			wit := func(extra map[string]any) map[string]any {
				w := map[string]any{"hyphen_free": base, "with_hyphens": src, "bindings": env.String(), "hyphen_free_result": r0.Brief(), "with_hyphens_result": rs.Brief()}
				for k, v := range extra {
					w[k] = v
				}
				return w
			}
			if rs.Panic != "" || rs.Shape != "" {
				c.Violate("panic|"+rs.Site, "a template with whitespace-control hyphens panicked", wit(nil))
				break
			}
			if r0.IsErr != rs.IsErr {
				c.Violate("weak|error-differs", "adding hyphens changed whether the template renders", wit(nil))
				break
			}
			if r0.IsErr {
				continue
			}
			if stripWS(rs.Out) != stripWS(r0.Out) {
				c.Violate("weak|non-whitespace-changed", "hyphens removed or added something other than whitespace (outputs differ after deleting all whitespace)", wit(nil))
				break
			}
			if len(rs.Out) > len(r0.Out) {
				c.Violate("weak|output-grew", "hyphens made the output longer", wit(nil))
				break
			}
			if rs.Out != r0.Out {
				c.Distinct(base, fmt.Sprint(mask))
			}
			// strong law: every chosen hyphen faces literal text, the template boundary, a comment body (no effect)
			// or a raw body (its edge whitespace may be stripped or kept: both readings of "adjacent literal text")
			strong := true
			var rawSlots []int
			for j, s := range chosen {
				if mask&(1<<j) == 0 {
					continue
				}
				// a hyphen that faces another tag or object has no literal text next to it: it strips nothing (facesText == -2
				// contributes no deletion to the transformed template)
				if s.opaque == 2 && s.bodyTok >= 0 {
					rawSlots = append(rawSlots, j)
				}
			}
			if !strong || len(rawSlots) > 3 {
				continue
			}
			c.Obs("strong_law_checked", 1)
			matched := false
			var firstT core.Res
			var firstSrc string
			for combo := 0; combo < 1<<len(rawSlots) && !matched; combo++ {
				rawStrip := 0
				for bi, j := range rawSlots {
					if combo&(1<<bi) != 0 {
						rawStrip |= 1 << j
					}
				}
				tsrc := build(mask, true, rawStrip)
				rt := core.Run(e, tsrc, b)
				c.Eval(1)
				if combo == 0 {
					firstT, firstSrc = rt, tsrc
				}
				if rt.OK() && rt.Out == rs.Out {
					matched = true
				}
			}
			if !matched {
				c.Violate("strong|differs-from-whitespace-deleted-template", "with every hyphen facing literal text (or an unrendered comment body), the output must equal that of the template with the hyphens dropped and the adjacent whitespace deleted",
					wit(map[string]any{"whitespace_deleted_template": firstSrc, "whitespace_deleted_result": firstT.Brief()}))
				break
			}
		}
	}
}

// c13Partials: a hyphen acts on the literal text next to it in ITS OWN source. What an included file renders is
// inserted where the include stands; the includer's text around the tag is not adjacent to any marker inside the
// file, and the file's text is not adjacent to a marker on the include tag... except through the tag's own hyphens,
// which face the includer's text only.
func c13Partials(c *core.Ctx, e *liquid.Engine) {
	if c.Shard != 3%c.NShards || !c.Begin("partials family") {
		return
	}
	parts := []string{"[{{ y -}}", "{{- y }}]", "  {{- y -}}  ", "[{% if t -%} in {%- endif -%}", "{%- assign q = 1 -%}", " \n{%- comment %}c{% endcomment -%}\n ", "plain ", "{{ y }}", "{%- for i in (1..2) -%} {{ i }} {%- endfor -%}"}
	arounds := [][2]string{{"a ", " \n\t z"}, {" \n", "\n "}, {"a", "z"}, {"  ", "  "}, {"x\t", "\ty"}}
	b := map[string]any{"y": "Y", "t": true}
	for pi, p := range parts {
		name := fmt.Sprintf("c13part%d.html", pi)
		if _, pr := core.ParseCache(e, p, name, 1); !pr.OK() {
			continue
		}
		alone := core.Run(e, p, b)
		if !alone.OK() {
			continue
		}
		for _, ar := range arounds {
			for _, wrap := range []string{"%s", "{%% for k in (1..2) %%}%s{%% endfor %%}", "{%% if t %%}%s{%% endif %%}", "{%% capture cc %%}%s{%% endcapture %%}{{ cc }}"} {
				inner := ar[0] + "{% include '" + name + "' %}" + ar[1]
				src := fmt.Sprintf(wrap, inner)
				want := ar[0] + alone.Out + ar[1]
				if strings.Contains(wrap, "for k") {
					want += want
				}
				res := core.Run(e, src, b)
				c.Eval(1)
				c.Obs("partial_cases", 1)
				c.Distinct("partial", src)
				if !res.OK() || res.Out != want {
					c.Violate("partial|"+resClass(res), "a whitespace-control marker inside an included file reached the text of the including template (or the other way round): the text around an include tag without hyphens is emitted unchanged, around exactly what the file renders on its own",
						map[string]any{"included_file": p, "source": src, "expected": want, "observed": res.Brief()})
				}
			}
		}
	}
}
