// Package props holds one file per property: the workload it drives and the
// monitors (oracles) that judge each execution.
package props
