package props

import (
	"fmt"
	"os"
	"path/filepath"
	"reflect"
	"regexp"
	"sort"
	"strconv"
	"strings"

	"github.com/osteele/liquid"
	"github.com/osteele/liquid/verifhook"

	"verif/harness/core"
	"verif/harness/gen"
	"verif/harness/ref"
)

func init() {
	core.Register(&core.Prop{
		ID:    "C01",
		Level: "exploration",
		Rule: "(1) EXHAUSTIVE filter boundary matrix: every registered standard filter x receiver in U x argument tuples in U^k (k = 0,1, and 2 where the filter takes >= 2 arguments; quick uses the reduced 24-value universe for arguments), values bound as variables and spelled as literals; (2) EXHAUSTIVE operator/tag matrix over U^2: comparisons, contains, and/or, ranges, index, property, for/tablerow with modifiers, case/when, assign/capture/cycle/include; (3) hostile sources: PRNG bytes, delimiter-alphabet strings, mutations of generated programs and of the template literals harvested from the repository's *_test.go files, selector/oversized-literal injections. Oracle: no panic, no process death, result is output xor non-nil SourceError, logical step count (verifhook.Step) within a budget proportional to tokens x (largest loop extent)^(loop nesting). Non-trivial = every case (each is a distinct input tuple); distinct counted by hash of (template, bindings descriptor).",
		Exhaustive: func(string) bool { return true },
		Assumptions: []string{
			"sources that can spell an unbounded loop/range (a '..' together with a digit run of 6+ digits or the times filter) are skipped and counted: their cost is not bounded by construction",
			"funcs, channels, complex numbers and error values are not 'plain data' and are not bound",
			"a case using more than 60 CPU-seconds is declared non-terminating; the step budget (not wall clock) decides 'proportional time'",
		},
		MinEvents: map[string]int64{"filter_matrix_cases": 10000, "hostile_sources": 10000},
		Run:       runC01,
	})
}

// engineNames reads the registered filter / tag / block names by reflection.
func engineNames(e *liquid.Engine) (filters, tags, blocks []string) {
	// the tables are unexported: whatever a refactoring turns them into, reading them must not bring the check down
	defer func() {
		if recover() != nil {
			filters, tags, blocks = nil, nil, nil
		}
	}()
	cfg := reflect.ValueOf(e).Elem().FieldByName("cfg")
	var find func(v reflect.Value, name string, depth int) reflect.Value
	find = func(v reflect.Value, name string, depth int) reflect.Value {
		if v.Kind() != reflect.Struct || depth > 4 {
			return reflect.Value{}
		}
		if f := v.FieldByName(name); f.IsValid() {
			return f
		}
		for i := 0; i < v.NumField(); i++ {
			if f := find(v.Field(i), name, depth+1); f.IsValid() {
				return f
			}
		}
		return reflect.Value{}
	}
	keys := func(name string) []string {
		m := find(cfg, name, 0)
		var out []string
		if m.IsValid() && m.Kind() == reflect.Map {
			for _, k := range m.MapKeys() {
				out = append(out, k.String())
			}
		}
		sort.Strings(out)
		return out
	}
	return keys("filters"), keys("tags"), keys("blockDefs")
}

// filterArity returns the number of declared parameters after the receiver (-1 unknown).
func filterArity(e *liquid.Engine, name string) int {
	fv := filterFunc(e, name)
	if !fv.IsValid() {
		return -1
	}
	if fv.Type().IsVariadic() {
		return 3
	}
	return fv.Type().NumIn() - 1
}

// filterVariadic reports whether the registered filter takes any number of arguments.
func filterVariadic(e *liquid.Engine, name string) bool {
	fv := filterFunc(e, name)
	return fv.IsValid() && fv.Type().IsVariadic()
}

// filterFunc finds the function registered under name by reflection over the engine's tables (an invalid Value when
// the tables are not laid out as expected: callers then leave the filter out).
func filterFunc(e *liquid.Engine, name string) (fn reflect.Value) {
	defer func() {
		if recover() != nil {
			fn = reflect.Value{}
		}
	}()
	cfg := reflect.ValueOf(e).Elem().FieldByName("cfg")
	var find func(v reflect.Value, depth int) reflect.Value
	find = func(v reflect.Value, depth int) reflect.Value {
		if v.Kind() != reflect.Struct || depth > 4 {
			return reflect.Value{}
		}
		if f := v.FieldByName("filters"); f.IsValid() {
			return f
		}
		for i := 0; i < v.NumField(); i++ {
			if f := find(v.Field(i), depth+1); f.IsValid() {
				return f
			}
		}
		return reflect.Value{}
	}
	m := find(cfg, 0)
	if !m.IsValid() || m.Kind() != reflect.Map || m.Type().Key().Kind() != reflect.String {
		return reflect.Value{}
	}
	fv := m.MapIndex(reflect.ValueOf(name))
	if !fv.IsValid() {
		return reflect.Value{}
	}
	if fv.Kind() == reflect.Interface {
		fv = fv.Elem()
	}
	if fv.Kind() != reflect.Func {
		return reflect.Value{}
	}
	return fv
}

// StaticFilters is the list of standard filters this harness knows about; the
// union with the reflected table is exercised, so neither an added nor a
// removed filter goes unnoticed.
var StaticFilters = []string{"abs", "append", "capitalize", "ceil", "compact", "concat", "date", "default", "divided_by", "downcase", "escape", "escape_once",
	"first", "floor", "inspect", "join", "json", "last", "lstrip", "map", "minus", "modulo", "newline_to_br", "plus", "prepend", "remove", "remove_first",
	"replace", "replace_first", "reverse", "round", "rstrip", "size", "slice", "sort", "sort_natural", "split", "strip", "strip_html", "strip_newlines",
	"times", "truncate", "truncatewords", "type", "uniq", "upcase", "url_decode", "url_encode"}

var reDigits6 = regexp.MustCompile(`[0-9]{6,}`)
var reDigitRun = regexp.MustCompile(`[0-9]{1,5}`)

// unboundedBySyntax: the source can spell a loop/range whose extent we cannot bound.
func unboundedBySyntax(src string) bool {
	if !strings.Contains(src, "..") {
		return false
	}
	return reDigits6.MatchString(src) || strings.Contains(src, "times") || strings.Contains(src, "plus") && strings.Contains(src, "e")
}

// stepBudget computes the logical work budget for a case.
func stepBudget(src string, maxColl int) int64 {
	toks := ref.Tokens(src, ref.DefaultDelims)
	T := int64(len(toks)) + int64(len(src)/8) // work proportional to the length of the source (a when list of 100000 values) is in proportion
	d := 0
	L := int64(maxColl)
	for _, t := range toks {
		if t.Kind == ref.Tag && (t.Name == "for" || t.Name == "tablerow") {
			d++
		}
	}
	for _, m := range reDigitRun.FindAllString(src, -1) {
		if n, _ := strconv.ParseInt(m, 10, 64); n > L {
			L = n
		}
	}
	if d > 4 {
		d = 4
	}
	b := 64 * (T + 1)
	for i := 0; i < d; i++ {
		b *= (L + 1)
		if b > 2e9 {
			return 0 // no budget: only the CPU watchdog applies
		}
	}
	if strings.Contains(src, "include") || strings.Contains(src, "xfile") || strings.Contains(src, "xbfile") || strings.Contains(src, "xcard") {
		// an included file is scanned, compiled and rendered at every level it is reached at (up to a hundred): the files
		// next to the templates total about 300 KB
		b += 101 * 64 * (300_000 / 8)
	}
	return b + 10000
}

type c01 struct {
	c    *core.Ctx
	e    *liquid.Engine
	runs int
}

// judge applies the C01 oracle to one result.
func (x *c01) judge(kind, keyHint, src string, bdesc func() string, r core.Res) {
	c := x.c
	c.Eval(1)
	switch {
	case r.Budget:
		c.Violate("budget|"+kind+"|"+keyHint, "logical work exceeded the budget proportional to the loops and ranges the template spells out",
			map[string]any{"source": core.Trunc(src, 3000), "bindings": bdesc(), "observed": r.Brief()})
	case r.Panic != "":
		c.Violate("panic|"+r.Site+"|"+keyHint, "a panic reached the API boundary",
			map[string]any{"source": core.Trunc(src, 3000), "bindings": bdesc(), "observed": r.Brief()})
	case r.Shape != "":
		c.Violate("shape|"+kind+"|"+keyHint, "the result is neither output nor a non-nil SourceError: "+r.Shape,
			map[string]any{"source": core.Trunc(src, 3000), "bindings": bdesc(), "observed": r.Brief()})
	}
	if r.IsErr {
		c.Obs("results_error", 1)
	} else if r.Panic == "" {
		c.Obs("results_output", 1)
	}
}

func (x *c01) run(kind, keyHint, src string, b map[string]any, maxColl int, bdesc func() string) {
	verifhook.SetBudget(stepBudget(src, maxColl))
	r := core.Run(x.e, src, b)
	x.c.ObsMax("max:steps_per_case", verifhook.Total())
	verifhook.SetBudget(0)
	x.judge(kind, keyHint, src, bdesc, r)
	// whatever the engine has been through (failed includes among it), registering a source and including it ends
	if x.runs++; x.runs%509 == 0 {
		name := fmt.Sprintf("late-%d.html", x.runs%7)
		_, pr := core.ParseCache(x.e, "[late {{ x }}]", name, 1)
		x.judge("register-after-history", "", "ParseTemplateAndCache(\"[late {{ x }}]\", \""+name+"\")", bdesc, pr)
		x.judge("include-after-history", "", "{% include '"+name+"' %}", bdesc, core.Run(x.e, "{% include '"+name+"' %}{% include 'never-there.html' %}", b))
		x.c.Obs("registrations_after_history", 1)
	}
}

func runC01(c *core.Ctx) {
	x := &c01{c: c, e: liquid.NewEngine()}
	RegisterCustom(x.e) // application tags and blocks: the render.Context methods are reachable only through them
	// a.html exists next to the (pathless) templates, so that include / RenderFile get past the read
	if dir := filepath.Join(c.WorkDir, fmt.Sprintf("c01-%02d", c.Shard)); os.MkdirAll(dir, 0o755) == nil && os.Chdir(dir) == nil {
		os.WriteFile(filepath.Join(dir, "a.html"), []byte("[a.html {{ x }} {{ xlocal }}{% if t %} {{ s | upcase }}{% endif %}]"), 0o644)
		// files that include themselves, directly and through each other
		os.WriteFile(filepath.Join(dir, "self.html"), []byte("s{% include 'self.html' %}e"), 0o644)
		// files that include themselves from deep inside nested blocks: the two depths multiply
		for _, n := range []int{900, 10_000} {
			name := map[int]string{900: "deepself900.html", 10_000: "deepself.html"}[n]
			os.WriteFile(filepath.Join(dir, name), []byte(strings.Repeat("{% if true %}", n)+"{% include '"+name+"' %}"+strings.Repeat("{% endif %}", n)), 0o644)
		}
		os.WriteFile(filepath.Join(dir, "p.html"), []byte("{% for i in (1..2) %}{% include 'q.html' %}{% endfor %}"), 0o644)
		os.WriteFile(filepath.Join(dir, "q.html"), []byte("{% if t %}{% include 'p.html' %}{% endif %}{% xfile p.html %}"), 0o644)
		defer os.RemoveAll(dir)
	}
	x.typeSequences()
	x.filterMatrix()
	x.operatorMatrix()
	x.hostile()
}

func (x *c01) filterMatrix() {
	c := x.c
	reg, _, _ := engineNames(x.e)
	names := map[string]bool{}
	for _, n := range reg {
		names[n] = true
	}
	for _, n := range StaticFilters {
		names[n] = true
	}
	var all []string
	for n := range names {
		all = append(all, n)
	}
	sort.Strings(all)
	c.ObsMax("max:registered_filters", int64(len(reg)))
	U := gen.PlainDataUniverse()
	A := U
	if c.Quick {
		A = gen.SmallUniverse()
	}
	idx := 0
	for _, f := range all {
		ar := filterArity(x.e, f)
		for k := 0; k <= 2; k++ {
			if k == 2 && ar >= 0 && ar < 2 {
				continue
			}
			src := "{{ r | " + f
			if k >= 1 {
				src += ": a"
			}
			if k >= 2 {
				src += ", b"
			}
			src += " }}"
			tpl, pr := core.ParsePlain(x.e, src)
			if !pr.OK() {
				x.judge("filter", f, src, func() string { return "" }, pr)
				continue
			}
			na, nb := 1, 1
			if k >= 1 {
				na = len(A)
			}
			if k >= 2 {
				nb = len(A)
			}
			for ri := range U {
				for ai := 0; ai < na; ai++ {
					for bi := 0; bi < nb; bi++ {
						idx++
						if !c.Mine(idx) {
							continue
						}
						// fresh values per case: a filter that mutates its input must not poison later cases
						uu := gen.PlainDataUniverse()
						aa := uu
						if c.Quick {
							aa = gen.SmallUniverse()
						}
						b := map[string]any{"r": uu[ri].Go}
						desc := f + "(" + uu[ri].Name
						if k >= 1 {
							b["a"] = aa[ai].Go
							desc += "," + aa[ai].Name
						}
						if k >= 2 {
							b["b"] = aa[bi].Go
							desc += "," + aa[bi].Name
						}
						desc += ")"
						if !c.Begin("filter-matrix:" + src + " with " + desc) {
							continue
						}
						if f == "times" || f == "plus" || f == "minus" {
							// cannot build a loop: single object
						}
						verifhook.SetBudget(100000)
						r := core.Render(tpl, b)
						verifhook.SetBudget(0)
						c.Obs("filter_matrix_cases", 1)
						c.Distinct("fm", src, desc)
						x.judge("filter", f, src, func() string { return desc + " :: " + gen.DescribeEnv(b) }, r)
						if idx%40009 == 1 {
							c.Sample(map[string]any{"kind": "filter matrix", "source": src, "values": desc, "observed": core.Trunc(r.Brief(), 120)})
						}
						// literal spelling
						if k <= 1 && uu[ri].Lit != "" && (k == 0 || aa[ai].Lit != "") {
							ls := "{{ " + uu[ri].Lit + " | " + f
							if k == 1 {
								ls += ": " + aa[ai].Lit
							}
							ls += " }}"
							x.run("filter-literal", f, ls, nil, 0, func() string { return "" })
							c.Distinct("fl", ls)
						}
					}
				}
			}
		}
	}
}

func (x *c01) operatorMatrix() {
	c := x.c
	U := gen.PlainDataUniverse()
	type form struct {
		name, src string
		pair      bool
	}
	forms := []form{
		{"eq", "{% if a == b %}T{% else %}F{% endif %}", true}, {"ne", "{{ a != b }}", true}, {"lt", "{% if a < b %}T{% endif %}", true},
		{"gt", "{{ a > b }}", true}, {"le", "{% if a <= b %}T{% endif %}", true}, {"ge", "{{ a >= b }}", true},
		{"contains", "{% if a contains b %}T{% else %}F{% endif %}", true}, {"and", "{{ a and b }}", true}, {"or", "{% if a or b %}T{% endif %}", true},
		{"range", "{% for i in (a..b) limit: 3 %}{{ i }}{% endfor %}", true}, {"rangejoin", "{{ (a..b) | first }}", true},
		{"index", "{{ a[b] }}", true}, {"indexprop", "{{ a[b].size }}{{ a[b][b] }}", true},
		{"props", "{{ a.size }}{{ a.first }}{{ a.last }}{{ a.absent }}{{ a.k }}{{ a.Name }}{{ a.private }}{{ a.tagged }}{{ a.Nested.Items[0] }}{{ a.M.k }}{{ a.A }}{{ a.B }}{{ a.Count }}", false},
		{"methods", "{{ a.Zone }}{{ a.ISOWeek }}{{ a.MarshalJSON }}{{ a.MarshalText }}{{ a.Year }}{{ a.String }}{{ a.Unix }}{{ a.Date }}{{ a.Clock }}{{ a.Upper }}{{ a.Slug }}{{ a.Error }}{{ a.Len }}{{ a.ToLiquid }}", false},
		{"print", "{{ a }}", false}, {"for", "{% for x in a %}{{ x }}{{ forloop.index }}{% else %}E{% endfor %}", false},
		{"forlimit", "{% for x in a limit: b %}{{ x }}{% endfor %}", true}, {"foroffset", "{% for x in a reversed offset: b %}{{ x[0] }}{% endfor %}", true},
		{"tablerow", "{% tablerow x in a cols: b %}{{ x }}{% endtablerow %}", true}, {"tablerow1", "{% tablerow x in a %}{{ x }}{% endtablerow %}", false},
		{"case", "{% case a %}{% when b %}W{% when 1, 'a' %}X{% else %}E{% endcase %}", true},
		{"assign", "{% assign v = a %}{{ v }}{% capture w %}{{ a }}{{ b }}{% endcapture %}{{ w | size }}", true},
		{"include", "{% include a %}", false},
		{"cycleuser", "{% assign forloop = a %}{% cycle 'x', 'y' %}", false},
		{"cyclein", "{% for i in (1..2) %}{% assign forloop = a %}{% cycle 'x' %}{% endfor %}", false},
		{"unless", "{% unless a %}U{% else %}V{% endunless %}{% if a %}{% elsif b %}{% endif %}", true},
		{"loopvars", "{% for forloop in a %}{{ forloop }}{% endfor %}{% for x in (1..2) %}{% for x in a %}{{ forloop.length }}{% endfor %}{% endfor %}", false},
	}
	idx := 0
	for _, f := range forms {
		tpl, pr := core.ParsePlain(x.e, f.src)
		if !pr.OK() {
			x.judge("operator", f.name, f.src, func() string { return "" }, pr)
			continue
		}
		nb := 1
		if f.pair {
			nb = len(U)
		}
		for ai := range U {
			for bi := 0; bi < nb; bi++ {
				idx++
				if !c.Mine(idx) {
					continue
				}
				uu := gen.PlainDataUniverse()
				b := map[string]any{"a": uu[ai].Go}
				desc := f.name + "(" + uu[ai].Name
				if f.pair {
					b["b"] = uu[bi].Go
					desc += "," + uu[bi].Name
				}
				desc += ")"
				if strings.HasPrefix(f.name, "range") {
					ia, oka := asInt64(uu[ai].Go)
					ib, okb := asInt64(uu[bi].Go)
					if oka && okb && ib > ia && (ib-ia > 100000 || ib-ia < 0) {
						c.Skip("range extent beyond 10^5 (unbounded by construction)")
						continue
					}
				}
				if !c.Begin("operator-matrix:" + f.src + " with " + desc) {
					continue
				}
				verifhook.SetBudget(100000)
				r := core.Render(tpl, b)
				verifhook.SetBudget(0)
				c.Obs("operator_matrix_cases", 1)
				c.Distinct("om", f.src, desc)
				x.judge("operator", f.name, f.src, func() string { return desc + " :: " + gen.DescribeEnv(b) }, r)
				if idx%7001 == 1 {
					c.Sample(map[string]any{"kind": "operator/tag matrix", "source": f.src, "values": desc, "observed": core.Trunc(r.Brief(), 120)})
				}
			}
		}
	}
}

func hostileEnv() map[string]any {
	return map[string]any{
		"a": []any{1, "two", nil, 3.5}, "s": "str ing", "n": 7, "z": 0, "f": 2.5, "t": true, "m": map[string]any{"k": "v", "size": 2, "l": []any{1, 2}},
		"st": gen.DataStruct{Name: "nm", Items: []int{1}}, "d": gen.DropV{X: []any{1, 2}}, "nothing": nil, "b": []byte("bytes"),
		"p": &gen.DataStruct{Name: "p"}, "array": []string{"first", "second", "third"}, "x": 1, "i": 2, "item": "it", "list": []int{3, 1, 2},
	}
}

func (x *c01) hostile() {
	c := x.c
	corpus := gen.Harvest()
	c.ObsMax("max:harvested_test_literals", int64(len(corpus)))
	sel := []string{"%assign x = 1", "{%cycle \"a\"", "%loop x in y", "{%when 1", "%assign ", "{%cycle ", "%loop ", "{%when ", "%assign x = ", "%loop x in (1..3) limit: 2"}
	big := []string{"99999999999999999999", "-99999999999999999999", strings.Repeat("9", 400), "1." + strings.Repeat("9", 400), "9223372036854775808", "1e400", "0x10", "1_000"}
	var inject []string
	for _, s := range sel {
		inject = append(inject, "{{ "+s+" }}", "{% if "+s+" %}{% endif %}", "{% assign v = "+s+" %}", "{% for i in "+s+" %}{% endfor %}",
			"{% case "+s+" %}{% when 1 %}{% endcase %}", "{% case 1 %}{% when "+s+" %}{% endcase %}", "{% for i in (1..2) %}{% cycle "+s+" %}{% endfor %}",
			"{% include "+s+" %}", "{{ 1 | plus: "+s+" }}", "{% for i in a limit: "+s+" %}{% endfor %}", "{% unless "+s+" %}x{% endunless %}", "{% if true %}{% elsif "+s+" %}{% endif %}")
	}
	for _, s := range big {
		inject = append(inject, "{{ "+s+" }}", "{{ a["+s+"] }}", "{{ 'abc' | slice: "+s+" }}", "{{ 'abc' | truncate: "+s+" }}", "{{ 'a b c' | truncatewords: "+s+" }}",
			"{{ 1 | plus: "+s+" }}", "{{ 5 | round: "+s+" }}", "{% for i in a limit: "+s+" %}{{ i }}{% endfor %}", "{% for i in a offset: "+s+" %}{{ i }}{% endfor %}",
			"{% tablerow i in a cols: "+s+" %}{{ i }}{% endtablerow %}", "{% if "+s+" > 1 %}{% endif %}", "{% assign v = "+s+" %}{{ v | minus: 1 }}")
	}
	// ranges far too large to materialise: array filters must refuse them (an error), never panic; lazy loops with a limit are fine
	for _, s := range []string{"{{ (1..9223372036854775807) | first }}", "{{ (0..4294967296) | join: ',' }}", "{{ (-9223372036854775807..9223372036854775807) | size }}",
		"{% for i in (1..9223372036854775807) limit: 2 %}{{ i }}{% endfor %}", "{{ (1..9223372036854775807) | reverse | first }}", "{% assign r = (5..9007199254740993) %}{{ r | last }}{{ r | sort | first }}",
		"{% tablerow i in (1..4611686018427387904) limit: 1 %}{{ i }}{% endtablerow %}", "{{ (1..4294967296) | concat: a | size }}", "{{ (1..9223372036854775807) | map: 'x' }}{{ (1..9223372036854775807) | uniq }}",
		"{{ (1..2147483647) | first }}", "{{ (-5..50000000) | size }}|{{ (1..50000000) | last }}", "{% assign r = (1..2147483640) %}{{ r | reverse | first }}{% for i in r limit: 1 %}{{ i }}{% endfor %}"} {
		inject = append(inject, s)
	}
	// include cycles: must end in an error, not in stack exhaustion
	inject = append(inject, "{% include 'self.html' %}", "a{% include 'p.html' %}b", "{% xfile self.html %}", "{% for i in (1..3) %}{% include 'self.html' %}{% endfor %}", "{% capture c %}{% include 'q.html' %}{% endcapture %}{{ c | size }}", "{% xbfile self.html %}{% endxbfile %}")
	// the cycle statement in every shape: values that are not text, a group without values, stray separators
	for _, a := range []string{"1, 2", "'g': 'a', true", "nil", "\"g\":", "'a':", ": 'a'", "'a',", ",", "x", "x: 'a', 'b'", "'g': 1", "1.5", "'a' 'b'", "'a', 'b':", "(1..2)", "'a' | upcase", "a[0]", "'g': 'a', 'b', nil, 2"} {
		inject = append(inject, "{% for i in (1..3) %}{% cycle "+a+" %}{% endfor %}", "{% tablerow i in (1..2) %}{% cycle "+a+" %}{% endtablerow %}", "{% cycle "+a+" %}")
	}
	// depth: a filter evaluates the filter before it, and compiling and rendering recurse once per block level; a goroutine
	// stack that outgrows the runtime's limit ends the process, which no recover can prevent. The sizes are the ones at
	// which that happened (3 million filters, 800000 blocks) and ones just around any sensible limit.
	for _, n := range []int{1000, 99_999, 100_001, 3_200_000} {
		inject = append(inject, "{{ 1 "+strings.Repeat("|abs", n)+" }}")
	}
	for _, n := range []int{1000, 99_999, 100_001, 850_000} {
		inject = append(inject, strings.Repeat("{%if 1%}", n)+"x"+strings.Repeat("{%endif%}", n))
	}
	inject = append(inject, strings.Repeat("{%for i in (1..1)%}{%xwrap a%}{%capture c%}", 40_000)+"x"+strings.Repeat("{%endcapture%}{%endxwrap%}{%endfor%}", 40_000),
		"{{ a"+strings.Repeat(".a", 2_000_000)+" }}", "{% if 1"+strings.Repeat(" and 1", 1_000_000)+" %}y{% endif %}", "{{ a"+strings.Repeat("[0]", 1_000_000)+" }}")
	// value lists of a hundred thousand entries (parsing them once took memory quadratic in their length), forty thousand
	// unterminated raw tags (each once made the scanner search the rest of the source), 24 MB of chained properties
	inject = append(inject, "{% case 1 %}{% when 2"+strings.Repeat(",1", 100_000)+" %}x{% endcase %}", "{% for i in (1..3) %}{% cycle 'a'"+strings.Repeat(",'b'", 100_000)+" %}{% endfor %}",
		strings.Repeat("{% raw %}x", 40_000), strings.Repeat("{% comment %}{% raw %}", 20_000), "{{ a"+strings.Repeat(".a", 12_000_000)+" }}", "{% if 1"+strings.Repeat(" or 1", 4_000_000)+" %}y{% endif %}",
		"{% include 'deepself.html' %}", "{% include 'deepself900.html' %}")
	env := hostileEnv
	// frozen regression inputs: every source that ever produced a genuine violation (or that the development-time
	// fuzzer found interesting) stays in /verif/corpus/C01 and is replayed first
	if files, _ := filepath.Glob(filepath.Join(corpusDir(), "C01", "*")); len(files) > 0 {
		sort.Strings(files)
		for i, f := range files {
			if !c.Mine(i) {
				continue
			}
			data, err := os.ReadFile(f)
			if err != nil || !c.Begin("corpus:"+filepath.Base(f)) {
				continue
			}
			b := env()
			x.run("corpus", filepath.Base(f), string(data), b, 8, func() string { return "hostile env" })
			c.Obs("corpus_inputs", 1)
			c.Distinct("corpus", string(data))
		}
	}
	n := c.Pick(150000, 3000000)
	for i := 0; i < n+len(inject); i++ {
		if !c.Mine(i) {
			continue
		}
		r := c.Rand(i, 9)
		stdenv := gen.StdEnv(c.Rand(i, 10))
		var src, kind string
		switch {
		case i < len(inject):
			src, kind = inject[i], "inject"
		default:
			switch r.Intn(13) {
			case 10, 11:
				src, kind = customSource(r.Intn), "custom-tags"
				if r.P(1, 4) {
					src, kind = gen.Mutate(r, src, corpus), "mutated-custom-tags"
				}
			case 12:
				// string literals whose body is any text without the quote: Liquid has no escapes, a backslash is a character
				q := "\"'"[r.Intn(2)]
				lit := func() string { return string(q) + gen.RandLiteralBody(r, q) + string(q) }
				forms := []string{"{{ %s }}", "{{ %s | append: %s }}", "{%% if s == %s %%}T{%% endif %%}", "{%% assign v = %s %%}{{ v | size }}", "{{ s | replace: %s, %s }}", "{%% case %s %%}{%% when %s %%}W{%% endcase %%}",
					"{{ m[%s] }}", "{%% include %s %%}", "{%% for i in (1..2) %%}{%% cycle %s, %s %%}{%% endfor %%}", "{{ a | join: %s }}{{ %s | split: %s | size }}"}
				f := forms[r.Intn(len(forms))]
				var args []any
				for k := strings.Count(f, "%s"); k > 0; k-- {
					args = append(args, lit())
				}
				src, kind = fmt.Sprintf(f, args...), "string-literals"
			case 0:
				src, kind = gen.RandBytes(r, r.Intn(257)), "bytes"
			case 1, 2:
				src, kind = gen.RandDelimString(r, r.Range(1, 40)), "delims"
			case 3, 4, 5, 6:
				if len(corpus) > 0 {
					src, kind = gen.Mutate(r, corpus[r.Intn(len(corpus))], corpus), "mutated-test-literal"
					break
				}
				fallthrough
			default:
				f := gen.FullFeatures()
				f.Errors = true
				f.MapLoops = true
				g := gen.NewG(r, f, stdenv)
				st := gen.DefaultStyle
				st.R = r
				st.WS = r.Intn(6)
				src = st.Source(g.Program())
				kind = "generated"
				if r.Bool() {
					src, kind = gen.Mutate(r, src, corpus), "mutated-generated"
				}
			}
		}
		if kind != "inject" && unboundedBySyntax(src) {
			c.Skip("source can spell an unbounded range")
			continue
		}
		if !c.Begin(fmt.Sprintf("hostile(%s):%q", kind, core.Trunc(src, 4000))) {
			continue
		}
		b := env()
		if i%11 == 3 {
			// no bindings at all: Render(nil) is legal, and assign / capture / loops then have to create variables
			b = nil
		}
		if b != nil && (kind == "generated" || kind == "mutated-generated") {
			for k, v := range gen.CanonEnv(stdenv) {
				if _, ok := b[k]; !ok {
					b[k] = v
				}
			}
		}
		x.run("hostile-"+kind, "", src, b, 8, func() string {
			if b == nil {
				return "nil bindings"
			}
			return "hostile env: " + gen.DescribeEnv(b)
		})
		c.Obs("hostile_sources", 1)
		c.Obs("hostile:"+kind, 1)
		c.Distinct("h", src)
		if i%30011 == 17 {
			c.Sample(map[string]any{"kind": "hostile source (" + kind + ")", "source": core.Trunc(src, 200)})
		}
	}
}

// asInt64 reads any integer-like Go value (through pointers and Drops) for the extent rule.
func asInt64(x any) (int64, bool) {
	for i := 0; i < 4; i++ {
		switch d := x.(type) {
		case gen.DropV:
			x = d.X
		case *gen.DropP:
			x = d.X
		}
	}
	rv := reflect.ValueOf(x)
	for rv.IsValid() && rv.Kind() == reflect.Ptr && !rv.IsNil() {
		rv = rv.Elem()
	}
	if !rv.IsValid() {
		return 0, false
	}
	switch rv.Kind() {
	case reflect.Int, reflect.Int8, reflect.Int16, reflect.Int32, reflect.Int64:
		return rv.Int(), true
	case reflect.Uint, reflect.Uint8, reflect.Uint16, reflect.Uint32, reflect.Uint64, reflect.Uintptr:
		return int64(rv.Uint()), true
	}
	return 0, false
}

// typeSequences renders property lookups on struct-like values of many Go types one after the other in
// ONE process, in an order that differs per worker and runs before anything else touches the library:
// state remembered per type (caches keyed by type name, lazily built tables) must not leak between types.
func (x *c01) typeSequences() {
	c := x.c
	src := "{{ a.Name }}{{ a.A }}{{ a.B }}{{ a.Count }}{{ a.tagged }}{{ a.Items[0] }}{{ a.M.k }}{{ a.size }}{{ a.private }}{{ a.Nested.Name }}{{ a[\"A\"] }}{% if a contains \"B\" %}c{% endif %}"
	tpl, pr := core.ParsePlain(x.e, src)
	if !pr.OK() {
		x.judge("type-sequence", "parse", src, func() string { return "" }, pr)
		return
	}
	var names []string
	for _, u := range gen.PlainDataUniverse() {
		if rv := reflect.ValueOf(u.Go); rv.IsValid() {
			k := rv.Kind()
			if k == reflect.Ptr && !rv.IsNil() {
				k = rv.Elem().Kind()
			}
			if k == reflect.Struct || k == reflect.Map {
				names = append(names, u.Name)
			}
		}
	}
	for round := 0; round < 3; round++ {
		r := core.NewRand(c.Seed, 0xC01, uint64(c.Shard), uint64(round))
		order := r.Perm(len(names))
		for _, oi := range order {
			var val any
			for _, u := range gen.PlainDataUniverse() {
				if u.Name == names[oi] {
					val = u.Go
				}
			}
			desc := fmt.Sprintf("type-sequence(worker %d, round %d): a=%s", c.Shard, round, names[oi])
			if !c.Begin(desc + " :: " + src) {
				continue
			}
			verifhook.SetBudget(100000)
			res := core.Render(tpl, map[string]any{"a": val})
			verifhook.SetBudget(0)
			c.Obs("type_sequence_cases", 1)
			c.Distinct("ts", desc)
			x.judge("type-sequence", names[oi], src, func() string { return desc + " " + gen.Describe(val) }, res)
		}
	}
}

func corpusDir() string {
	if r := os.Getenv("VERIF_ROOT"); r != "" {
		return filepath.Join(r, "corpus")
	}
	return "/verif/corpus"
}
