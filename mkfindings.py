#!/usr/bin/env python3
"""Regenerates known_findings.txt. 'fixed' entries are looked up in /repo's history by commit subject,
so the recorded hashes stay right; 'known' entries are listed verbatim below."""
import subprocess
FIXED = [
 # (property, subject prefix of the fix commit, what failed)
 ("C08", "fix: let an object's contents span newlines", 'a newline inside {{ ... }} (e.g. "{{ x\\n| upcase }}" or a string literal containing a newline) made the object scan as literal text (seen by C05 as value|literal|wrong-output, by C08 as whitespace-variant disagreement)'),
 ("C20", "fix: return a write failure from flushes", "a failing io.Writer made FRender panic at the final flush / end of a block body / inside raw / at a left-trim ('unexpected call on sourceless node')"),
 ("C20", "fix: tablerow returns write errors", "a failing io.Writer inside tablerow panicked in the row/cell decorators; the closing </td> was written after the cell body had failed"),
 ("C02", "fix: iterate maps in sorted key order", "{% for kv in map %}, {{ map | first }}, {{ map | join }} followed Go's randomized map order: same template+bindings rendered differently across renders"),
 ("C01", "fix: report an out-of-range numeric literal", "{{ 99999999999999999999 }} panicked in the expression lexer (strconv range error)"),
 ("C01", "fix: Parse rejects input that parses as a statement", "{{ %assign x = 1 }}, {{ {%cycle 'a' }} parsed as statements and panicked at render (nil evaluator)"),
 ("C01", "fix: slice filter clamps", "{{ 'abc' | slice: 5 }}, slice: 1, -1, slice: 0, maxint panicked with slice bounds out of range"),
 ("C16", "fix: truncate and truncatewords work on characters", "truncate: 2 / truncatewords: 2000 / negative lengths panicked in regexp.MustCompile; truncate counted the ellipsis in bytes and skipped strings with newlines; truncatewords lengthened a string of exactly n words (also C01)"),
 ("C01", "fix: uniq and sort_natural tolerate nil", "{{ a | uniq }} with a nil element, sort_natural with nil/mixed elements, missing keys or non-string keys panicked"),
 ("C09", "fix: comparing maps (and other uncomparable", "{% if m == m %}, case/when and contains on maps panicked with 'comparing uncomparable type' (also C01)"),
 ("C09", "fix: compare unsigned integers by numeric value", "uint8(1) == 1 and u8 < 2 were false (also C18)"),
 ("C18", "fix: divided_by accepts uint and uint64", "{{ 6 | divided_by: u }} with a uint or uint64 divisor failed with 'invalid divisor' while other widths worked"),
 ("C01", "fix: an empty range (b < a) has length 0", "{{ (5..1) | join }} panicked in makeslice; {{ (maxint..maxint) | first }} never terminated"),
 ("C01", "fix: struct property lookup ignores unexported", "{{ st.priv }} on an unexported field and {{ time[''] }} panicked in reflect.Value.Interface"),
 ("C01", "fix: cycle reports an error instead of panicking", "{% assign forloop = 1 %}{% cycle 'a' %} panicked on an unchecked type assertion"),
 ("C11", "fix: a for loop over nil or an undefined variable renders its else", "{% for i in nil %}..{% else %}E{% endfor %} (also undefined variables and non-iterables) rendered nothing instead of the else branch"),
 ("C09", "fix: an ordered map (yaml.MapSlice) equals itself", "{% if m == m %} was false for a yaml.MapSlice binding (== not reflexive)"),
 ("C17", "fix: modulo by zero is an error", "{{ 5 | modulo: 0 }} printed NaN instead of reporting an error"),
 ("C17", "fix: round is exact for large whole numbers", "{{ 9007199254740991 | round }} gave 9007199254740992 (operands and result exactly representable)"),
 ("C16", "fix: capitalize upper-cases the first character", "{{ 'ébc' | capitalize }} produced invalid UTF-8 (first byte upper-cased)"),
 ("C15", "fix: the size filter counts the elements of a range", "{{ (1..3) | size }} printed 0 although array filters accept ranges"),
 ("C13", "fix: a left-trim hyphen only strips the text written immediately before it", "in 'a {{ x -}}\\n{{- y }}' (x empty) the space after 'a' was stripped although it is not adjacent to the second tag (strong trim law)"),
 ("C06", "fix: an unclosed comment or raw block is a parse error", "{% comment %}... / {% raw %}... never closed were accepted"),
 ("C07", "fix: an error that already carries a line number keeps it", "without a parse path, a render error nested in blocks was reported at the line of the outermost enclosing block"),
 ("C07", "fix: errors in elsif and when clauses are located at the clause", "syntax/evaluation errors in {% elsif %} / {% when %} were reported at the line of the {% if %} / {% case %} tag"),
 ("C18", "fix: Drops nested in an array are resolved before the array reaches a filter", "{{ drops | join }} printed Go structs ({x} {y}); sort_natural/uniq/sort: key saw wrapper structs instead of the ToLiquid values"),
 ("C18", "fix: uniq compares elements by Liquid equality", "{{ a | uniq }} kept uint8(1) and uint(1) (or 1 and 1.0) as distinct elements; panicked on a struct wrapping an uncomparable value"),
 ("C04", "fix: cycle does not write a variable shared by all renders", "two goroutines rendering one parsed template containing {% cycle %} raced on the captured err variable (tags/iteration_tags.go)"),
 ("C19", "fix: an empty string passed to Delims selects the corresponding default", "Delims(\"\", ...) panicked / mis-scanned instead of using the default delimiter"),
 ("C19", "fix: whitespace-control hyphens are found next to custom delimiters of any length", "with delimiters whose length is not 2, hyphens were ignored or ordinary characters taken as hyphens"),
 ("C19", "fix: a right tag delimiter containing regexp metacharacters", "a right tag delimiter such as *) made the scanner panic in regexp.MustCompile"),
 ("C01", "fix: indexing a map with an unhashable key yields nil", "{{ m[k] }} with an interface-keyed map and k = [1]any{[]int{1}} panicked with 'hash of unhashable type'"),
 ("C18", "fix: printing a map shows the values of nested Drops and pointers", "{{ m }} printed Drop entries as Go structs ({x}) and pointer entries as memory addresses (0xc000...), so output depended on representation and memory layout (also C02)"),
 ("C18", "fix: an array or map converted to text shows the values of nested Drops", "{{ pair | downcase | size }} (string filter applied to an array holding a Drop) depended on the Go representation: the Drop was spelled as its wrapper struct"),
 ("C01", "fix: property access on a map whose keys are not strings", "{{ m.foo }} / {{ m.size }} on a map[int]string panicked in reflect.Value.MapIndex"),
 ("C01", "fix: converting an enormous range to an array is an error", "{{ (1..9223372036854775807) | first }} (any array filter on a range of more than 2^31 elements) panicked with 'makeslice: cap out of range' or tried to allocate the whole range"),
 ("C01", "fix: ExpandTagArg and RenderFile work from a block's renderer", "a block registered with RegisterBlock whose renderer calls ExpandTagArg on an argument containing {{ ... }} (or RenderFile on an existing file) panicked with a nil pointer dereference (render/context.go used the tag node, which is nil for blocks)"),
 ("C19", "fix: ExpandTagArg recognises objects written with custom delimiters", "with Delims(\"<<\", \">>\", ...) the argument of an application tag such as {% xecho pre-<< x >>-post %} was returned unexpanded (only the literal {{ was looked for), unlike its default-delimiter spelling on a default engine"),
 ("C01", "fix: values of named string types", "{{ t.size }} / {% if t contains 'x' %} with t of a named string type (type Title string, json.Number) panicked on an unchecked .(string) assertion; sort: 'k' over maps keyed by a named string type panicked in MapIndex; m.k on such a map was nil although m['k'] found it (also C18)"),
 ("C01", "fix: a field promoted from a nil embedded struct pointer reads as nil", "{{ o.Count }} where Count is promoted from an embedded *Inner that is nil panicked in reflect ('indirection through nil pointer to embedded struct')"),
 ("C01", "fix: looking a slice or map up in an ordered map does not panic", "{{ ms[arr] }} / 'ms contains arr' on a yaml.MapSlice one of whose keys is a slice panicked with 'comparing uncomparable type []int'"),
 ("C01", "fix: a value of a named string type given to the date filter", "{{ t | date: f }} with t of a named string type panicked on an unchecked .(string) assertion in Convert"),
 ("C19", "fix: the scanner tells objects from tags by which pattern matched", "with an object-left delimiter longer than a whole tag that ends the source (Delims(\"((((\", \"))))\", \"<\", \">\"), template 'x<z>') Scan sliced past the end of the source and panicked"),
 ("C13", "fix: the trim hyphen of a tag without arguments is not taken as its argument", "in {% name -%} the argument pattern took the hyphen: an application tag saw TagArgs() == \"-\" (and {% capture -%} captured into a variable called '-'), so the hyphen changed non-whitespace output"),
 ("C10", "fix: false of a named boolean type is false", "a value of type 'type Flag bool' holding false was compared with the untyped constant false and counted as true in if/unless/case, under and/or and in the default filter (also C09)"),
 ("C08", "fix: integers of every width work as array index, range bound and loop modifier", "a[i] was nil, (1..n) and limit:/offset:/cols: failed when the number was an int64 (e.g. the result of divided_by), a uint, an int8 or a named integer type: only the Go type int was accepted (also C11, C18)"),
 ("C09", "fix: 'map contains key' with a key or map key type that is a named string type", "{% if m contains t %} was false when t had a named string type and m was keyed by string (or the reverse)"),
 ("C05", "fix: whitespace control trims literal text only", "{{ a -}}{{ b }} dropped the leading whitespace of the VALUE of b, {{ b }}{{- a }} its trailing whitespace, {{ a -}}{% raw %}  r{% endraw %} the start of the raw body: trim flags applied to whatever was written next / last (also C13)"),
 ("C13", "fix: whitespace control reaches only the text next to the marker", "{{ a -}}{% assign x = 1 %} text stripped ' text' across the assign tag, and 'text {% assign x = 1 %}{{- a }}' stripped 'text ': markers reached literal text that is not adjacent to them"),
 ("C13", "fix: the end of a block body, clause or loop iteration also ends pending whitespace control", "in {% for x in a %} x {% assign y = 1 -%}{% endfor %} the pending trim leaked into the next iteration; {% endcase -%}{% endcase %} text reached past the outer end tag"),
 ("C14", "fix: break and continue in an included template do not interrupt a loop of the including template", "[{% for i in (1..3) %}{{ i }}{% include 'brk.html' %}|{% endfor %}] with 'pre{% break %}post' in brk.html rendered '[1]' without an error, although rendering that file directly fails with 'break outside a loop'"),
 ("C01", "fix: a template that includes itself ends in an error instead of exhausting the stack", "a file that includes itself (directly or through others) recursed until the goroutine stack overflowed: fatal error, process dead"),
 ("C18", "fix: a pointer prints and converts as what it points to", "{{ p }} with p a *time.Time printed Go's default time format (the pointer branch of writeObject passed a reflect.Value on), p | date failed, a nil pointer inside an array printed '<invalid reflect.Value>'"),
 ("C15", "fix: nil pointers among array elements are nil, and a nil separator is not the text <nil>", "compact kept typed nil pointers and join printed them as '<nil>'; {{ a | join: nothing }} joined with the text '<nil>'"),
 ("C17", "fix: the strings \"nan\", \"inf\" and \"infinity\" are not numbers", "{{ \"nan\" | ceil }} printed -9223372036854775808, {{ \"inf\" | plus: 1 }} printed +Inf instead of reporting a string that does not spell a number"),
 ("C18", "fix: an ordered map's own size key wins also when it is bound to nil", "yaml.MapSlice{{\"size\", nil}}.size gave 1 where a map with the same entry gives nil (also C08)"),
 ("C03", "fix: cycle only counts in the record of a real loop", "with a binding forloop = {'.cycles': map[string]int{}} a {% cycle %} outside any loop worked and wrote its position into that map: the caller's bindings changed and the position survived into the next render"),
 ("C14", "fix: include accepts a name of a named string type", "{% include t %} with t of a named string type failed with 'include requires a string argument'"),
 ("C14", "fix: a registered source is used whenever no such file exists, not only for ENOENT", "a source registered with ParseTemplateAndCache under a path that runs through a regular file (ENOTDIR) or is too long (ENAMETOOLONG) was ignored"),
 ("C14", "fix: ParseTemplateAndCache keeps its own copy of the source", "the cache held on to the caller's slice: reusing the buffer changed what the registered path includes"),
 ("C04", "fix: registering a template with ParseTemplateAndCache is safe while others parse and render", "ParseTemplateAndCache wrote, and include read, the source cache map without synchronisation: data race, 'fatal error: concurrent map writes'"),
 ("C17", "fix: divided_by takes divisors of every integer and float type", "a divisor of a named numeric type, a uintptr or a json.Number was 'invalid divisor'; a uint64 above MaxInt64 wrapped negative"),
 ("C09", "fix: a string does not contain nil", "{% if 'a<nil>b' contains nothing %} was true: the nil needle was spelled '<nil>'"),
 ("C10", "fix: ordered maps compare the same way under ==, case/when and contains", "case/when, array contains and uniq compared yaml.MapSlice entries as Go structs ({a: 1} vs {a: int64(1)} differed although == said equal); [] == MapSlice{} was true from the left only (also C09)"),
 ("C17", "fix: a value of a named string type that spells a number is a number for the numeric filters", "{{ t | plus: 1 }} with t = Title(\"2.5\") failed with a conversion error"),
 ("C08", "fix: upcase, downcase, capitalize and escape_once take no argument", "{{ 'a' | upcase: 1 }} was accepted: the four filters were declared with an unused second parameter"),
 ("C08", "fix: an integer index does not read the entry of a string-keyed map", "{{ m[65] }} read m['A'] (Go's integer-to-string conversion takes the integer for a code point)"),
 ("C10", "fix: the else clause of a case is the fallback wherever it stands", "{% case x %}{% else %}E{% when 1 %}one{% endcase %} with x = 1 rendered E: an else clause that is not the last clause beat every later when"),
 ("C01", "fix: a struct method that returns two values which are not (value, error)", "{{ t.Zone }} / {{ t.ISOWeek }} on a time.Time panicked (IsNil on an int result); {{ t.MarshalJSON }} for a time in year 10000 re-raised the method's error as a panic"),
 ("C09", "fix: 'map contains key' finds the key of a map with interface keys", "{% if m contains 'abc' %} was false for a map[any]any holding the key (the shape a YAML decoder gives nested maps) although m['abc'] finds it"),
 ("C02", "fix: map keys that are equal in value but differ in Go type have a fixed order", "keys such as \"a\" and Title(\"a\") (or 1 and MyInt(1)) of a map[any]T tied when the keys were sorted: Go's random map order showed in for / join / first (also C03)"),
 ("C14", "fix: a source registered under an unclean path is found by include", "ParseTemplateAndCache(src, \"./tpl/part.html\") stored the source under that spelling while include looks up the cleaned path: never found"),
 ("C15", "fix: sort and sort_natural by key find the key in every kind of record", "sort: 'k' ignored the key for map[any]any and ordered-map records, sort_natural: 'k' also when the value under the key was a Drop (also C18)"),
 ("C17", "fix: round with more places than the number has digits returns the number", "{{ 1.5 | round: 9007199254740992 }} printed NaN, {{ 12.75 | round: 24 }} printed 12.749999999999998"),
 ("C18", "fix: a []byte nested in a map or array that is printed whole prints as its text", "{{ m }} with m = {k: []byte(\"hi\")} printed map[k:[104 105]]"),
 ("C01", "fix: a range of more than ten million elements is not materialised", "{{ (1..2147483647) | first }} still allocated 32 GiB (the earlier limit was 2^31-1 elements) and the process died of memory exhaustion"),
 ("C01", "fix: a map entry under a NaN key is skipped", "a binding map[float64]any{NaN: 1} made {{ m }}, {% for p in m %}, {{ m | join }} and every array filter panic (reflect: call of reflect.Value.Interface on zero Value)"),
 ("C11", "fix: break inside tablerow closes the open row", "{% tablerow i in (1..3) cols:2 %}{% if i == 1 %}{% break %}{% endif %}{% endtablerow %} rendered <tr class=\"row1\"><td class=\"col1\"></td> with no </tr>"),
 ("C17", "fix: a floating-point number with a whole value prints as that number", "{{ 999999 | plus: 1 }} printed 1e+06, {{ 1234567 | minus: 0 }} printed 1.234567e+06: a whole-number result with a fractional part in its mantissa (also C08 {{ 1234567.0 }})"),
 ("C19", "fix: tag arguments never keep the blank before the closing delimiter", "{% args 50% %} had TagArgs \"50% \" on a default engine and \"50%\" under Delims(\"\",\"\",\"<%\",\")>\"): the same template rendered differently through an application tag depending on the delimiters"),
 ("C05", "fix: the body of a raw or comment block ends at the first end tag", "{% raw %}{%a {% endraw %} and {% raw %}{{a{% endraw %}}} were reported as unterminated raw blocks (the scanner took the end tag into the unfinished opener's token); same for comment"),
 ("C13", "fix: whitespace control does not reach across a comment block", "{{ x -}}{% comment %}c{% endcomment %}  b lost the blanks before b, which no hyphen is adjacent to (the comment left no node); also a  {% comment %}c{% endcomment %}{{- x }}"),
 ("C07", "fix: a malformed expression argument of a filter with a Closure parameter", "an application filter with an expressions.Closure parameter (where_exp shape) given 'it >' or a non-string made Render panic (*expressions.rethrownError) instead of returning a SourceError (also C01)"),
 ("C02", "fix: error messages spell a container of pointers by its values", "{{ ps | plus: 1 }} with ps = []*int failed with can't convert []*int([0xc00011cf10]) ...: the error text differed from one set of equal bindings to the next (also {% include ps %})"),
 ("C02", "fix: divided_by names an invalid divisor by its values", "{{ 1 | divided_by: ps }} with ps = []*string failed with invalid divisor: '[0xc000462d80 0xc000462d90]'"),
 ("C18", "fix: json and inspect write nested Drops and pointers as the values they stand for", "{{ a | json }} with a = [Drop(1), Drop(\"x\")] printed [{},{}] instead of [1,\"x\"]"),
 ("C18", "fix: sort by key follows a pointer stored under the key", "{{ objs | sort: 'name' }} left a record whose name is a *string where it stood (c,b instead of b,c)"),
 ("C01", "fix: a chain of more than 100000 filters is an error", "{{ 1 |abs|abs|... }} with three million filters (12 MB) ended the process with 'fatal error: stack overflow'"),
 ("C01", "fix: blocks nested more than 100000 deep are a syntax error", "800000 nested {%if 1%} blocks (14 MB) ended the process with 'fatal error: stack overflow' in render (one million: in parse)"),
 ("C14", "fix: a registered template source is used when the include path names a directory", "with a directory standing at <dir>/p.html and a source registered for that path, {% include 'p.html' %} failed with 'is a directory'"),
 ("C15", "fix: sort orders an array that contains nil or values of different kinds", "{{ a | sort }} with a = [3, nil, 1, 2] returned [3, nil, 1, 2]; [3, \"b\", 1, \"a\"] came back unchanged: 3 stands before 1"),
 ("C16", "fix: the size filter takes a number or boolean receiver as the text it prints as", "{{ 12 | size }} was 0 although numbers and booleans given as receivers are first converted to the text they print as"),
 ("C17", "fix: a zero result prints as 0, never as -0", "{{ 0 | times: -1 }} and {{ -3 | modulo: 3 }} printed -0"),
 ("C01", "fix: a nil pointer whose type is a Drop is nil instead of a panic", "a binding (*D)(nil), D a Drop with a value receiver, made every use of it panic out of Render (ToLiquid called through the nil pointer)"),
 ("C18", "fix: a whole float32 prints as its exact value", "float32(1073741824) printed 1073741800 where the float64 of the same value prints 1073741824"),
 ("C01", "fix: unterminated raw or comment tags are scanned in linear time", "180 KB of unterminated {% raw %} tags took 38 s to reject (the end tag search ran to the end of the source once per tag; introduced by the wave-7 repair of raw bodies)"),
 ("C01", "fix: an expression longer than a mebibyte is a syntax error, and blocks nest at most 1000 deep", "22 MB of chained properties / indices / or-operators in one expression, and a file that includes itself from inside 10000 nested blocks (240 KB), ended the process with a fatal stack overflow"),
 ("C01", "fix: long value lists of when and cycle are parsed in linear memory", "{% when 1,1,...,1 %} with 8000 values took 524 MB, with 100000 values (a 200 KB template) the process was killed"),
]
KNOWN = [
 # (property, key, what)
 ("C08", "whitespace-in-parts|filter-colon|error", "{{ s | append : \"a\" }} is a syntax error: white space between a filter name and its colon changes the meaning (the ragel lexer makes 'name:' one token; ragel is not installed, so the generated lexer cannot be rebuilt here)"),
 ("C08", "whitespace-in-parts|dot-after-space|error", "{{ a . size }} is a syntax error: white space after the dot of a property (the lexer makes '.name' one token)"),
 ("C08", "whitespace-in-parts|dot-then-space|error", "{{ a. size }} is a syntax error: white space after the dot of a property (the lexer makes '.name' one token)"),
]
def sha(prefix):
    out = subprocess.run(["git","-C","/repo","log","--format=%h %s"],capture_output=True,text=True).stdout.splitlines()
    for l in out:
        h,_,subj = l.partition(" ")
        if subj.startswith(prefix): return h
    return None
lines = ["# Known findings and repaired defects for osteele/liquid (see DESIGN.md section 9).",
         "# 'known:' lines suppress exactly the violation key they name (the check prints KNOWN-FINDING for it);",
         "# 'fixed:' lines are a record only and suppress nothing. Regenerate with ./mkfindings.py."]
for p,k,w in KNOWN:
    lines.append(f"known: property={p} key={k} :: {w}")
for p,pre,w in FIXED:
    h = sha(pre)
    if h is None:
        raise SystemExit("no commit found for: "+pre)
    lines.append(f"fixed: property={p} {h} {w}")
open("/verif/known_findings.txt","w").write("\n".join(lines)+"\n")
print(len(FIXED),"fixed,",len(KNOWN),"known")
