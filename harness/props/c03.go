package props

import (
	"fmt"
	"sort"
	"strings"

	"github.com/osteele/liquid"
	"github.com/osteele/liquid/render"

	"verif/harness/core"
	"verif/harness/gen"
)

func init() {
	core.Register(&core.Prop{
		ID:    "C03",
		Level: "exploration",
		Rule: "histories of 2..40 renders on ONE shared engine over a pool of 40 generated templates (every tag; assign/capture of names that shadow bindings; sort, reverse, concat, uniq, compact, map, sort_natural applied to []any-typed bindings with spare capacity; cycles; loops ended by break; templates that fail part-way; application tags that call Context.Set, InnerString, RenderChildren and ExpandTagArg) x a pool of 12 binding environments x 4 entry points; every fourth history on engines configured with custom delimiters (templates re-spelled). Before the history every (template, bindings) pair is rendered solo on a fresh engine; in the history every step must reproduce its solo result, a deep snapshot of the bindings (maps by key, slices up to their capacity, struct fields, pointers, Drops) must be unchanged after every step, a reflective snapshot of every Template.GetRoot() tree (including closure identities) must be unchanged at the end, and a probe tag at the start of a render must see exactly the caller's variables. Non-trivial = a history with at least one repeated template after an intervening different render; distinct = distinct histories.",
		Exhaustive: func(string) bool { return false },
		Assumptions: []string{
			"state hidden inside compiled closures cannot be snapshotted; it is caught behaviourally by the solo-vs-history comparison",
			"how often ToLiquid is called is not asserted",
		},
		MinEvents: map[string]int64{"history_steps": 10000, "binding_snapshots_compared": 10000},
		Run:       runC03,
	})
}

func c03Envs(r *core.Rand) []map[string]any {
	var out []map[string]any
	for k := 0; k < 12; k++ {
		env := gen.StdEnv(r)
		rep := gen.Rep{}
		switch k % 4 {
		case 1:
			rep = gen.Rep{Typed: true}
		case 2:
			rep = gen.Rep{Drops: true}
		case 3:
			rep = gen.Rep{Pointers: true, Typed: true}
		}
		b := gen.RealiseEnv(env, r, rep)
		// unsorted []any slices with spare capacity: where an in-place filter would hurt the caller
		spare := make([]any, 4, 16)
		copy(spare, []any{3, 1, 2, 1})
		b["spare"] = spare
		b["words"] = append(make([]any, 0, 8), "pear", "Apple", "fig", "apple")
		b["recs"] = []any{map[string]any{"k": 2, "name": "b"}, map[string]any{"k": 1, "name": "a"}, map[string]any{"name": "c"}}
		// a long list of records, and a list mixing records with elements that have no properties at all
		var long []any
		for j := 0; j < 9; j++ {
			long = append(long, map[string]any{"k": (j*5 + k) % 9, "name": string(rune('a' + j))})
		}
		b["longrecs"] = long
		b["mixedrecs"] = []any{map[string]any{"k": 2, "name": "b"}, nil, 5, "str", map[string]any{"k": 1, "name": "a"}, map[string]any{"name": "c"}, map[any]any{1: 2}, 2.5}
		b["scalars"] = []any{7, "x", nil, 1.5, true}
		b["ncols"], b["lim"], b["off"] = 1+k%3, k%4, (k/2)%3
		// one struct type bound by value in some environments and by pointer in others (their method sets differ), two
		// struct types that rename fields with liquid tags
		if k%2 == 0 {
			b["ms"] = gen.MethodStruct{Title: "Hello World"}
		} else {
			b["ms"] = &gen.MethodStruct{Title: "Hello World"}
		}
		b["ta"], b["tb"] = gen.TaggedA{Name: "lamp", Price: 5, Sku: "SKU-1"}, &gen.TaggedB{Email: "ada@example.org", Full: "Ada", Sku: 7}
		// a map whose keys differ only in case, and a divisor list with a zero in some environments only
		b["cased"] = map[string]any{"usd": 1, "USD": 2, "Usd": 3, "uSd": 4}
		b["divs"] = []any{5, 2, 1}
		if k%3 == 1 {
			b["divs"] = []any{5, 0, 1}
		}
		b["st"] = &gen.DataStruct{Name: "s", Items: []int{3, 1, 2}, M: map[string]any{"z": 1}}
		out = append(out, b)
	}
	// an empty (but not nil) map, and a nil map: assign/capture/loop variables must not be written into them
	out = append(out, map[string]any{}, nil)
	// a binding that looks like the engine's own loop record: nothing may be written into it
	out = append(out, map[string]any{"forloop": map[string]any{".cycles": map[string]int{}, "index": 7, "length": 9, "first": true}, "spare": []any{1, 2}, "words": []any{"w"}})
	return out
}

var c03Fixed = []string{
	// loop modifiers read from bindings that differ from one render to the next: what one render's cols, limit or offset
	// was is nothing to the next render of the same template (also after a render that failed inside the loop)
	"{% tablerow x in words cols: ncols %}{{ x }}{% endtablerow %}", "{% for x in spare limit: lim offset: off %}{{ x }}{% endfor %}|{% for x in words reversed limit: ncols %}{{ x }}{% endfor %}",
	"{% tablerow x in spare cols: ncols limit: lim %}{{ x }}{% endtablerow %}|{% for i in (1..ncols) %}{% tablerow y in words cols: i %}{{ y }}{% endtablerow %}{% endfor %}",
	// a loop that fails part-way for some bindings and not for others, with per-loop state (cycle) in use when it fails
	"{% for x in spare %}{% cycle 'a', 'b', 'c' %}{{ x | divided_by: off }};{% endfor %}", "{% for x in spare %}{% cycle 'a', 'b' %}{% if forloop.index == lim %}{{ x | divided_by: 0 }}{% endif %}{{ x }};{% endfor %}",
	"{% tablerow x in words cols: ncols %}{% cycle 'p', 'q', 'r' %}{% if forloop.index == lim %}{{ 1 | modulo: 0 }}{% endif %}{% endtablerow %}",
	"{% tablerow x in spare cols: ncols %}{{ 6 | divided_by: off }}{% endtablerow %}", "{% for x in words limit: lim %}{% tablerow y in spare cols: ncols offset: off %}{{ y | divided_by: off }}{% endtablerow %}{% endfor %}",
	// includes: of a file that includes itself (ends at the depth limit), of one that fails inside, of one that works
	"{% include 'selfinc.html' %}", "a{% include 'failinc.html' %}b", "[{% include 'card.html' %}]{% for i in (1..2) %}{% include 'card.html' %}{% endfor %}", "{% for x in words %}{% include 'failinc.html' %}{% endfor %}",
	"{% include 'card.html' %}|{% include 'no-such-file.html' %}", "{% capture c %}{% include 'selfinc.html' %}{% endcapture %}", "{% xcard recs[0] %}{% include 'card.html' %}",
	"{{ spare | sort | join: ',' }}|{{ spare | join: ',' }}", "{{ spare | reverse | first }}{{ spare | uniq | size }}{{ spare | compact | last }}", "{{ spare | concat: spare | size }}{{ spare | concat: words | join: ' ' }}",
	"{{ words | sort_natural | join: ' ' }}{{ words | sort | first }}", "{{ recs | sort: 'k' | map: 'name' | join: '' }}{{ recs | map: 'k' | compact | size }}", "{% assign spare = 'shadow' %}{{ spare }}{% assign n = 99 %}{{ n }}",
	"{% capture words %}captured{% endcapture %}{{ words }}", "{% for x in spare %}{% cycle 'a', 'b', 'c' %}{{ x }}{% if forloop.index == 3 %}{% break %}{% endif %}{% endfor %}{{ x }}{{ forloop }}",
	"{% for i in (1..3) %}{% assign acc = acc | append: i %}{% endfor %}[{{ acc }}]", "{% for x in spare %}{{ x }}{% endfor %}{{ 1 | divided_by: 0 }}never", "{{ spare | sort | join: ',' }}{{ 1 | nosuchfilter }}",
	"{% assign s = spare | sort %}{{ s | first }}{% assign s = s | reverse %}{{ s | first }}", "{{ st.Name }}{{ st.Items | sort | join: ',' }}{{ st.Items | first }}{{ st.M.z }}", "{% tablerow x in words cols: 2 %}{{ x | upcase }}{% endtablerow %}",
	"{% for x in spare reversed limit: 2 %}{% for y in words offset: 1 %}{% cycle 'g': 'p', 'q' %}{% endfor %}{% endfor %}", "{% if spare contains 3 %}{% assign spare = nil %}{% endif %}[{{ spare }}]",
	"{{ longrecs | sort: 'k' | map: 'name' | join: '' }}{{ longrecs | sort: 'name' | map: 'k' | join: '' }}", "{{ mixedrecs | sort: 'k' | join: '|' }}", "{{ scalars | sort: 'k' | join: '|' }}{{ mixedrecs | sort: 'name' | map: 'name' | join: '|' }}",
	"{{ longrecs | sort_natural: 'name' | map: 'name' | join: '' }}{{ mixedrecs | sort_natural: 'name' | size }}{{ longrecs | map: 'k' | uniq | size }}",
	// application tags (custom.go): Context.Set writes a variable of this render, never the caller's map
	"{% xset spare = 'custom-shadow' %}{{ spare }}{% xset newvar = 5 %}{{ newvar }}{% xget newvar %}{% xset words = spare %}", "{% xwrap {{ n }} %}{% assign inwrap = 1 %}{{ spare | sort | first }}{% xset deep = words | first %}{% endxwrap %}{{ inwrap }}{{ deep }}",
	"{% xbump hits %}{% xbump hits %}{{ hits }}{% xbump n %}{{ n }}{% xbump spare %}{{ spare }}", "{% xbump k %}{% for x in spare %}{% xbump loops %}{% endfor %}{{ loops }}{{ k }}",
	"{{ ms.Title }}|{{ ms.Upper }}|{{ ms.Slug }}|{{ ms.nosuch }}", "{{ ta.label }}:{{ ta.cost }}:{{ ta.Sku }}|{{ tb.label }}:{{ tb.cost }}:{{ tb.Sku }}|{{ ta.Name }}{{ tb.Email }}",
	"{% for r in recs %}{{ r.size }}{% xcard r %}{% endfor %}{{ recs[0].size }}{% xcard nothing %}{% xcard longrecs[3] %}", "{% xcard recs.first %}{% xcard recs.last %}{{ recs.last | size }}{{ incard }}",
	"{% cycle 'a', 'b', 'c' %}|{{ forloop.index }}", "{{ forloop.index }}{{ forloop.length }}{% for x in spare %}{% cycle 'p', 'q' %}{{ forloop.index }}{% endfor %}{{ forloop.index }}{% cycle 'g': 'x', 'y' %}",
	"{% for d in divs %}{% cycle 'a', 'b', 'c' %}{{ 10 | divided_by: d }};{% endfor %}", "{% for kv in cased %}{{ kv[0] }}{% endfor %}|{{ cased | join: ',' }}|{{ cased | first | first }}",
	"{% tablerow d in divs cols: 2 %}{% cycle 'g': 'p', 'q' %}{{ 10 | modulo: d }}{% endtablerow %}",
	"{% xtwice %}{% cycle 'a', 'b', 'c' %}{% assign tw = tw | append: 'x' %}{% endxtwice %}{{ tw }}", "{% xwhen spare contains 3 %}{% xset st = nil %}{% xset recs = 1 %}{% endxwhen %}{{ st }}{{ recs }}{% xecho {{ spare | reverse | join: ',' }} %}",
	"{{ words | join: ',' | split: ',' | sort | last }}{{ words | first | append: '!' }}", "{% case spare.size %}{% when 4 %}{% assign four = true %}{% endcase %}{{ four }}{% unless four %}U{% endunless %}",
}

// c03Engine: the application tags of custom.go, and the partial that {% xcard %} renders.
func c03Engine(delims *[4]string) *liquid.Engine {
	e := liquid.NewEngine()
	card := "[{{ name }}{{ k }} @ {{ n }}{% assign incard = 1 %}]"
	if delims != nil {
		e.Delims(delims[0], delims[1], delims[2], delims[3])
		card, _ = respell(card, *delims)
	}
	RegisterCustom(e)
	if _, err := e.ParseTemplateAndCache([]byte(card), "card.html", 1); err != nil {
		panic(err)
	}
	selfinc, failinc := "s{% include 'selfinc.html' %}e", "f{{ n | divided_by: 0 }}g"
	if delims != nil {
		selfinc, _ = respell(selfinc, *delims)
		failinc, _ = respell(failinc, *delims)
	}
	e.ParseTemplateAndCache([]byte(selfinc), "selfinc.html", 1)
	e.ParseTemplateAndCache([]byte(failinc), "failinc.html", 1)
	return e
}

func runC03(c *core.Ctx) {
	probeSeen := ""
	pe := c03Engine(nil)
	pe.RegisterTag("vprobe", func(ctx render.Context) (string, error) {
		var ks []string
		for k := range ctx.Bindings() {
			ks = append(ks, k)
		}
		sort.Strings(ks)
		probeSeen = strings.Join(ks, ",")
		return "", nil
	})
	pe.RegisterFilter("vpanic", func(v any) any { panic("vpanic: a user filter blew up") })
	nh := c.Pick(2500, 60000)
	for h := 0; h < nh; h++ {
		if !c.Mine(h) {
			continue
		}
		r := c.Rand(h)
		// every fourth history runs on engines configured with custom delimiters, the templates re-spelled accordingly
		var delims *[4]string
		if h%4 == 3 {
			delims = &[4]string{"<<", ">>", "<%", "%>"}
		}
		shared := c03Engine(delims)
		// pools
		var srcs []string
		for len(srcs) < 40 {
			if r.P(1, 3) {
				srcs = append(srcs, c03Fixed[r.Intn(len(c03Fixed))])
				continue
			}
			f := gen.FullFeatures()
			f.Errors = true
			f.MapLoops = true
			f.MaxNodes = 10
			// generated templates do not feed a captured or assigned variable back into its own definition: inside nested
			// loops that squares a string per iteration (s | replace: '', s) and exhausts memory, which is the template's doing
			// (the fixed templates do shadow and re-assign bindings)
			f.NoVarReuse = true
			g := gen.NewG(r, f, gen.StdEnv(r))
			srcs = append(srcs, gen.DefaultStyle.Source(g.Program()))
		}
		if delims != nil {
			for i, src := range srcs {
				rs, toks := respell(src, *delims)
				if !sameTokens(toks, c19Tokens(rs, *delims)) { // the template's own text collides with the delimiters
					rs, _ = respell("{{ spare | sort | join: ',' }}{% assign n = 1 %}{% for x in words %}{{ x }}{% endfor %}", *delims)
				}
				srcs[i] = rs
			}
			c.Obs("histories_with_custom_delimiters", 1)
		}
		envs := c03Envs(r)
		if !c.Begin(fmt.Sprintf("history %d (seed stream %d): templates=%q", h, h, srcs[:3])) {
			continue
		}
		tpls := make([]*liquid.Template, len(srcs))
		trees := make([]string, len(srcs))
		for i, s := range srcs {
			t, pr := core.ParsePlain(shared, s)
			if pr.OK() {
				tpls[i] = t
				trees[i] = core.Snapshot(t.GetRoot())
			}
		}
		snaps := make([]string, len(envs))
		for i, b := range envs {
			snaps[i] = core.Snapshot(b)
		}
		solo := map[[2]int]core.Res{}
		soloOf := func(ti, bi int) core.Res {
			k := [2]int{ti, bi}
			if v, ok := solo[k]; ok {
				return v
			}
			fresh := c03Engine(delims)
			v := core.Run(fresh, srcs[ti], envs[bi])
			c.Eval(1)
			solo[k] = v
			return v
		}
		steps := r.Range(2, 40)
		var trace []string
		bad := false
		for s := 0; s < steps && !bad; s++ {
			ti, bi := r.Intn(len(srcs)), r.Intn(len(envs))
			if s > 1 && r.P(1, 3) {
				// come back to an earlier (template, bindings) pair after other renders
				var prev [2]int
				fmt.Sscanf(trace[r.Intn(len(trace))], "%d/%d", &prev[0], &prev[1])
				ti, bi = prev[0], prev[1]
			}
			want := soloOf(ti, bi)
			if snaps[bi] != core.Snapshot(envs[bi]) {
				c.Violate("bindings-changed|by-solo-render", "a render changed the caller's bindings", map[string]any{"template": srcs[ti], "before": core.Trunc(snaps[bi], 1500), "after": core.Trunc(core.Snapshot(envs[bi]), 1500)})
				bad = true
				break
			}
			entry := r.Intn(4)
			var got core.Res
			switch {
			case tpls[ti] == nil || entry == 3:
				got = core.ParseAndRender(shared, srcs[ti], envs[bi])
			case entry == 0:
				got = core.Render(tpls[ti], envs[bi])
			case entry == 1:
				got = core.RenderString(tpls[ti], envs[bi])
			default:
				got = core.FRender(tpls[ti], nil, envs[bi])
			}
			c.Eval(1)
			c.Obs("history_steps", 1)
			trace = append(trace, fmt.Sprintf("%d/%d/%d", ti, bi, entry))
			wit := func() map[string]any {
				return map[string]any{"history_index": h, "step": s, "template": srcs[ti], "bindings_pool_index": bi, "entry": []string{"Render", "RenderString", "FRender", "ParseAndRender"}[entry],
					"solo_result": want.Brief(), "history_result": got.Brief(), "steps_so_far(template/bindings/entry)": strings.Join(trace, " ")}
			}
			if !got.Same(want) {
				c.Violate("history-differs-from-solo|"+c18Feature(srcs[ti]), "a render in the middle of a history differs from the same render done alone on a fresh engine (state leaked between renders)", wit())
				bad = true
			}
			after := core.Snapshot(envs[bi])
			c.Obs("binding_snapshots_compared", 1)
			if after != snaps[bi] {
				w := wit()
				w["before"], w["after"] = core.Trunc(snaps[bi], 1500), core.Trunc(after, 1500)
				c.Violate("bindings-changed|"+c18Feature(srcs[ti]), "a render changed the caller's bindings (top-level map or something reachable from it)", w)
				bad = true
			}
		}
		for i, t := range tpls {
			if t != nil && core.Snapshot(t.GetRoot()) != trees[i] {
				c.Violate("template-changed", "rendering changed the parsed template (render tree snapshot differs)", map[string]any{"template": srcs[i], "history": strings.Join(trace, " ")})
				break
			}
		}
		c.Obs("tree_snapshots_compared", int64(len(tpls)))
		c.Distinct(strings.Join(trace, " "), fmt.Sprint(h))
		// (iv) a probe at the start of a render sees exactly the caller's variables
		for k := 0; k < 3; k++ {
			ti, bi := r.Intn(len(srcs)), r.Intn(len(envs))
			pt, pr := core.ParsePlain(pe, "{% vprobe %}"+srcs[ti])
			if !pr.OK() {
				continue
			}
			core.Render(pt, envs[r.Intn(len(envs))]) // some other render first
			if k == 1 {
				// ... and one that dies part-way by a panic out of a user filter, after assigning and capturing
				if dt, dr := core.ParsePlain(pe, "{% assign leftover_a = 'secret' %}{% capture leftover_c %}cap{% endcapture %}{% for leftover_i in (1..2) %}{{ 1 | vpanic }}{% endfor %}"); dr.OK() {
					core.Render(dt, envs[r.Intn(len(envs))])
				}
			}
			probeSeen = "(probe not run)"
			core.Render(pt, envs[bi])
			c.Eval(2)
			var ks []string
			for kk := range envs[bi] {
				ks = append(ks, kk)
			}
			sort.Strings(ks)
			c.Obs("start_probes", 1)
			if probeSeen != strings.Join(ks, ",") {
				c.Violate("leftover-variables", "variables from an earlier render (assign/capture/loop state) are visible at the start of a later render", map[string]any{"template": srcs[ti], "caller_variables": strings.Join(ks, ","), "probe_saw": probeSeen})
			}
		}
		if h%503 == 1 {
			c.Sample(map[string]any{"history(template/bindings/entry)": strings.Join(trace, " "), "templates": srcs[:4]})
		}
	}
}
