// Package fuzz holds a development-time input finder: Go's coverage-guided fuzzer with the C01 oracle
// (no panic, output xor SourceError). It cannot be seeded, so it never decides a check; what it finds is
// minimised and frozen into /verif/corpus/C01/, which the C01 check replays on every run.
package fuzz

import (
	"testing"

	"github.com/osteele/liquid"

	"verif/harness/core"
	"verif/harness/gen"
)

func bindings() map[string]any {
	return map[string]any{
		"a": []any{1, "two", nil, 3.5}, "s": "str ing", "n": 7, "z": 0, "f": 2.5, "t": true, "m": map[string]any{"k": "v", "size": 2, "l": []any{1, 2}},
		"st": gen.DataStruct{Name: "nm", Items: []int{1}}, "d": gen.DropV{X: []any{1, 2}}, "nothing": nil, "b": []byte("bytes"),
		"p": &gen.DataStruct{Name: "p"}, "array": []string{"first", "second", "third"}, "x": 1, "i": 2, "item": "it", "list": []int{3, 1, 2},
		"mi": map[int]string{1: "one"}, "ma": map[any]any{1: 2, "k": []any{1}}, "u": uint8(200), "f32": float32(0.1),
	}
}

func FuzzRender(f *testing.F) {
	for _, s := range gen.Harvest() {
		f.Add(s)
	}
	for _, s := range []string{"{{ a | sort | join: ', ' }}", "{% for i in (1..3) reversed limit: 2 offset: 1 %}{{ forloop.index }}{% cycle 'a', 'b' %}{% endfor %}",
		"{% tablerow x in a cols: 2 %}{{ x }}{% endtablerow %}", "{% case n %}{% when 1, 7 %}x{% else %}y{% endcase %}", "{{ s | truncatewords: 1, '…' | slice: -3, 2 }}",
		"{%- capture c -%} {{ m.k }} {%- endcapture -%}[{{ c }}]", "{{ st.Name }}{{ p.Items[0] }}{{ d | first }}{{ mi[1] }}{{ ma.k }}", "{% if a contains 'two' and n >= 7 or t %}T{% endif %}"} {
		f.Add(s)
	}
	e := liquid.NewEngine()
	f.Fuzz(func(t *testing.T, src string) {
		if len(src) > 2000 {
			return
		}
		// unbounded ranges are outside the property (cost proportional to what the template spells out)
		digits := 0
		for i := 0; i < len(src); i++ {
			if src[i] >= '0' && src[i] <= '9' {
				digits++
				if digits >= 6 {
					return
				}
			} else {
				digits = 0
			}
		}
		r := core.Run(e, src, bindings())
		if r.Panic != "" || r.Shape != "" {
			t.Fatalf("source %q: %s", src, r.Brief())
		}
	})
}
