package props

import (
	"encoding/json"
	"errors"
	"fmt"
	"strings"

	"github.com/osteele/liquid"

	"verif/harness/core"
	"verif/harness/gen"
)

func init() {
	core.Register(&core.Prop{
		ID:    "C07",
		Level: "exploration",
		Rule: "PRNG templates of 1..30 lines in which EXACTLY ONE failing construct is planted at a known byte offset: syntax error in an object or in if/assign/for/case/when/cycle arguments, unknown tag, unknown filter, a filter's own error (harness filter returning a sentinel; divided_by: 0), conversion errors, stray end/clause tags, an unterminated block, strict-mode undefined variable, loop-modifier type error, missing include, and failures of application tags and blocks written against render.Context (a failing object inside a tag/block argument expanded with ExpandTagArg, EvaluateString errors, Errorf, WrapError, plain errors, RenderFile of a missing file, errors in the body of a custom block rendered once or twice); surrounded by arbitrary text, preceded by multi-line tags/objects, nested 0..6 deep through every block kind and clause (else/elsif/when bodies, later loop iterations, capture bodies); parsed with path in {none, t.liquid, d/t.liquid} x starting line in {0, 1, 1000} through ParseTemplateLocation+Render, ParseTemplate+Render, ParseAndRender, ParseAndRenderString, and ParseTemplateAndCache+Render with clean and unclean paths (./t, d//t, d/../t). Oracle: non-nil SourceError, no output with it, Path() = parse path, LineNumber() = start line + newlines before the construct, non-empty message naming the unknown tag/filter, Cause() leading to the wrapped error. Non-trivial = the construct is not on the first line or is nested; distinct = distinct (template, location, entry point).",
		Exhaustive: func(string) bool { return false },
		Assumptions: []string{
			"the failing construct of a clause condition (elsif/when) is the clause tag itself",
			"for an unterminated block the failing tag is the innermost unclosed block tag (also when several blocks are left open); the construct is planted at the top level",
			"line numbers of errors raised inside included files are not asserted",
		},
		Run: runC07,
	})
}

type c07kind struct {
	name     string
	src      func(nonce string) string
	render   bool   // fails at render time (must be executed)
	strict   bool   // needs strict-variables mode
	mustName string // message must contain this (with %s = nonce)
	cause    int    // 0 none required, 1 Cause() != nil, 2 cause chain reaches the sentinel
	topOnly  bool
	offset   func(src string) int // offset of the failing tag inside src (default 0)
}

var c07Sentinel = errors.New("vf-sentinel-5d1e")

func c07Kinds() []c07kind {
	after := func(marker string) func(string) int {
		return func(s string) int { return strings.Index(s, marker) }
	}
	return []c07kind{
		{name: "object-syntax", src: func(string) string { return "{{ a b }}" }},
		{name: "object-syntax-multiline", src: func(string) string { return "{{ a\n b\n }}" }},
		{name: "if-syntax", src: func(string) string { return "{% if a b %}x{% endif %}" }},
		{name: "assign-syntax", src: func(string) string { return "{% assign x = %}" }},
		{name: "for-syntax", src: func(string) string { return "{% for a b c %}{% endfor %}" }},
		{name: "case-syntax", src: func(string) string { return "{% case a b %}{% when 1 %}{% endcase %}" }},
		{name: "when-syntax", src: func(string) string { return "{% case 1 %}\n{% when a b %}{% endcase %}" }, offset: after("{% when")},
		{name: "elsif-syntax", src: func(string) string { return "{% if false %}\n\n{% elsif a b %}{% endif %}" }, offset: after("{% elsif")},
		{name: "cycle-syntax", src: func(string) string { return "{% for q in (1..2) %}\n{% cycle %}{% endfor %}" }, offset: after("{% cycle")},
		{name: "unknown-tag", src: func(n string) string { return "{% nosuchtag_" + n + " arg %}" }, mustName: "nosuchtag_%s"},
		{name: "unknown-filter", src: func(n string) string { return "{{ 1 | nosuchfilter_" + n + " }}" }, render: true, mustName: "nosuchfilter_%s"},
		{name: "unknown-filter-in-if", src: func(n string) string { return "{% if 1 | nosuchfilter_" + n + " %}{% endif %}" }, render: true, mustName: "nosuchfilter_%s"},
		{name: "filter-error", src: func(string) string { return "{{ 1 | vfail }}" }, render: true, cause: 2},
		{name: "filter-error-multiline", src: func(string) string { return "{{ 1\n | upcase\n | vfail }}" }, render: true, cause: 2},
		{name: "filter-error-in-assign", src: func(string) string { return "{% assign z = 1 | vfail %}" }, render: true, cause: 2},
		{name: "filter-error-in-if", src: func(string) string { return "{% if 1 | vfail %}{% endif %}" }, render: true, cause: 2},
		{name: "filter-error-in-elsif", src: func(string) string { return "{% if false %}\n{% elsif 1 | vfail %}{% endif %}" }, render: true, cause: 2, offset: after("{% elsif")},
		{name: "filter-error-in-unless", src: func(string) string { return "{% unless 1 | vfail %}x{% endunless %}" }, render: true, cause: 2},
		{name: "filter-error-in-unless-else", src: func(string) string { return "{% unless 1 | vfail %}x{% else %}\ny{% endunless %}" }, render: true, cause: 2},
		{name: "unknown-filter-in-unless", src: func(n string) string { return "{% unless 1 | nosuchfilter_" + n + " %}{% endunless %}" }, render: true, mustName: "nosuchfilter_%s"},
		{name: "division-by-zero-in-unless", src: func(string) string { return "{% unless 1 | divided_by: 0 %}{% endunless %}" }, render: true, cause: 1},
		{name: "conversion-error-in-unless", src: func(string) string { return "{% unless \"x\" | plus: 1 %}{% endunless %}" }, render: true, cause: 1},
		{name: "conversion-error-json-number-int", src: func(string) string { return "{{ \"abcdef\" | slice: jn }}" }, render: true, cause: 1},
		{name: "conversion-error-json-number-truncate", src: func(string) string { return "{{ \"abcdef\" | truncate: jbig }}" }, render: true, cause: 1},
		{name: "conversion-error-json-number-float", src: func(string) string { return "{{ 1 | plus: jhuge }}" }, render: true, cause: 1},
		{name: "filter-error-in-case", src: func(string) string { return "{% case 1 | vfail %}{% when 1 %}{% endcase %}" }, render: true, cause: 2},
		{name: "filter-error-in-for", src: func(string) string { return "{% for q in one | vfail %}{% endfor %}" }, render: true, cause: 2},
		{name: "filter-returns-sourceerror", src: func(string) string { return "{{ 1 | vinner }}" }, render: true, cause: 1, mustName: "vinner"},
		{name: "filter-returns-sourceerror-in-if", src: func(string) string { return "{% if 1 | vinner %}{% endif %}" }, render: true, cause: 1},
		{name: "division-by-zero", src: func(string) string { return "{{ 1 | divided_by: 0 }}" }, render: true, cause: 1},
		{name: "conversion-error", src: func(string) string { return "{{ \"x\" | plus: 1 }}" }, render: true, cause: 1},
		{name: "range-endpoint-error", src: func(string) string { return "{% for q in (\"a\"..2) %}{% endfor %}" }, render: true},
		{name: "stray-endif", src: func(string) string { return "{% capture zz %}{% endif %}{% endcapture %}" }, offset: after("{% endif")},
		{name: "stray-else", src: func(string) string { return "{% capture zz %}\n{% else %}{% endcapture %}" }, offset: after("{% else")},
		{name: "stray-when", src: func(string) string { return "{% capture zz %}{% when 1 %}{% endcapture %}" }, offset: after("{% when")},
		{name: "stray-endfor-in-if", src: func(string) string { return "{% if true %}\n\n{% endfor %}{% endif %}" }, offset: after("{% endfor")},
		{name: "unterminated-if", src: func(string) string { return "{% if true %}" }, topOnly: true},
		{name: "unterminated-for", src: func(string) string { return "{% if true %}{% endif %}\n{% for q in one %}text" }, topOnly: true, offset: after("{% for")},
		{name: "unterminated-capture", src: func(string) string { return "{% capture zz %}" }, topOnly: true},
		{name: "unterminated-nested-2", src: func(string) string { return "{% if true %}\nx\n{% for q in one %}\ntext" }, topOnly: true, offset: after("{% for")},
		{name: "unterminated-nested-3", src: func(string) string { return "{% for q in one %}{% if true %}a{% else %}\n\n{% capture zz %}\n{{ 1 }}" }, topOnly: true, offset: after("{% capture")},
		{name: "unterminated-after-closed", src: func(string) string { return "{% if true %}{% for q in one %}{% endfor %}\n{% unless t %}{% endunless %}\n" }, topOnly: true},
		{name: "strict-undefined", src: func(n string) string { return "{{ undefined_" + n + " }}" }, render: true, strict: true},
		{name: "loop-limit-type", src: func(string) string { return "{% for q in one limit: \"x\" %}{% endfor %}" }, render: true},
		{name: "loop-offset-type", src: func(string) string { return "{% for q in one offset: one %}{% endfor %}" }, render: true},
		{name: "tablerow-cols-type", src: func(string) string { return "{% tablerow q in one cols: \"x\" %}{% endtablerow %}" }, render: true},
		{name: "include-missing", src: func(n string) string { return "{% include \"no-such-file-" + n + "\" %}" }, render: true, cause: 1},
		{name: "include-not-string", src: func(string) string { return "{% include 3 %}" }, render: true},
		{name: "break-outside-loop", src: func(string) string { return "{% break %}" }, render: true, topOnly: true},
		{name: "when-evaluation-error", src: func(string) string { return "{% case 1 %}\n\n{% when (1..one) %}x{% endcase %}" }, render: true, offset: after("{% when")},
		{name: "when-evaluation-error-second", src: func(string) string { return "{% case 1 %}{% when 2 %}\n{% when 3, (empty..2) %}x\n{% else %}{% endcase %}" }, render: true, offset: after("{% when 3")},
		{name: "elsif-evaluation-error", src: func(string) string { return "{% if false %}\n{% elsif (1..one) %}{% endif %}" }, render: true, offset: after("{% elsif")},
		{name: "cycle-number-values", src: func(string) string { return "{% for q in one %}{% cycle 1, 2 %}{% endfor %}" }, offset: after("{% cycle")},
		{name: "cycle-mixed-values", src: func(string) string { return "{% for q in one %}\n{% cycle 'g': 'a', true %}{% endfor %}" }, offset: after("{% cycle")},
		{name: "cycle-group-without-values", src: func(string) string { return "{% for q in one %}{% cycle 'g': %}{% endfor %}" }, offset: after("{% cycle")},
		// an application filter with an expressions.Closure parameter: the expression argument is parsed when the filter is applied
		{name: "closure-filter-syntax", src: func(string) string { return "{{ one | xwhere_exp: 'it', 'it >' }}" }, render: true, cause: 1},
		{name: "closure-filter-syntax-in-if", src: func(string) string { return "{% if one | xwhere_exp: 'it', '((' %}{% endif %}" }, render: true, cause: 1},
		{name: "closure-filter-not-a-string", src: func(string) string { return "{{ one\n | xwhere_exp: 'it', 3 }}" }, render: true, cause: 1},
		{name: "closure-filter-inner-error", src: func(string) string { return "{% assign z = one | xwhere_exp: 'it', 'it | vfail' %}" }, render: true, cause: 2},
		{name: "closure-filter-unknown-filter", src: func(n string) string { return "{{ one | xwhere_exp: 'it', 'it | nosuchfilter_" + n + "' }}" }, render: true, mustName: "nosuchfilter_%s"},
		// application tags and blocks (render.Context): the failing construct is the tag, or the object inside its argument on the same line
		{name: "custom-tag-arg-filter-error", src: func(string) string { return "{% xecho pre {{ 1 | vfail }} post\n more %}" }, render: true, cause: 1},
		{name: "custom-tag-arg-syntax", src: func(string) string { return "{% xecho {{ a b }} %}" }, render: true},
		{name: "custom-tag-arg-unknown-filter", src: func(n string) string { return "{% xecho {{ 1 | nosuchfilter_" + n + " }} %}" }, render: true, mustName: "nosuchfilter_%s"},
		{name: "custom-block-arg-filter-error", src: func(string) string { return "{% xwrap {{ 1 | vfail }} %}\nbody\n{% endxwrap %}" }, render: true, cause: 1},
		{name: "custom-block-body-error", src: func(string) string { return "{% xwrap a %}\nbody\n{{ 1 | vfail }}{% endxwrap %}" }, render: true, cause: 2, offset: after("{{ 1")},
		{name: "custom-block-twice-body-error", src: func(string) string { return "{% xtwice %}\n\n{% if true %}{{ 1 | vfail }}{% endif %}{% endxtwice %}" }, render: true, cause: 2, offset: after("{{ 1")},
		{name: "custom-tag-errorf", src: func(n string) string { return "{% xfail " + n + " %}" }, render: true, mustName: "custom failure %s"},
		{name: "custom-tag-wraperror", src: func(string) string { return "{% xwrapfail %}" }, render: true, cause: 3},
		{name: "custom-tag-plain-error", src: func(string) string { return "{% xplainfail\n %}" }, render: true, cause: 3},
		{name: "custom-block-errorf", src: func(n string) string { return "{% xbfail " + n + " %}\n{% endxbfail %}" }, render: true, mustName: "custom block failure %s"},
		{name: "custom-block-plain-error", src: func(string) string { return "{% xbplain %}\nb\n{% endxbplain %}" }, render: true, cause: 3},
		{name: "custom-tag-evaluatestring-error", src: func(string) string { return "{% xeval 1 | vfail %}" }, render: true, cause: 2},
		{name: "custom-tag-evaluatestring-syntax", src: func(string) string { return "{% xeval a b %}" }, render: true},
		{name: "custom-block-evaluatestring-error", src: func(string) string { return "{% xwhen 1 | vfail %}\n{% endxwhen %}" }, render: true, cause: 2},
		{name: "custom-tag-renderfile-missing", src: func(n string) string { return "{% xfile no-such-file-" + n + " %}" }, render: true, cause: 1},
		{name: "custom-block-renderfile-missing", src: func(n string) string { return "{% xbfile no-such-file-" + n + " %}{% endxbfile %}" }, render: true, cause: 1},
	}
}

var c07Pre = []string{"plain text", "", "{{ 1 }} and {{ 'a' | upcase }}", "{% assign a = 1 %}", "{% assign\n b = 2 %}", "{{ 'x'\n | upcase }}", "{% comment %}\n c {% if %}\n{% endcomment %}",
	"{% raw %}\n{{ x }}\n{% endraw %}", "{% if false %}{{ 1 | divided_by: 0 }}{% endif %}", "  {%- assign c = 3 -%}  ", "{% for w in (1..2) %}{{ w }}\n{% endfor %}",
	"{% capture pre %}\nline\n{% endcapture %}", "{% case 1 %}{% when 2 %}{{ 1 | vfail }}{% endcase %}", "é𝄞 unicode", "{% if true %}\nyes\n{% endif %}"}

var c07Open = []struct{ open, close string }{
	{"{% if true %}", "{% endif %}"},
	{"{% if false %}X{% else %}", "{% endif %}"},
	{"{% if false %}\n{% elsif true %}", "{% endif %}"},
	{"{% unless false %}", "{% endunless %}"},
	{"{% unless true %}{% else %}", "{% endunless %}"},
	{"{% for i in (1..2) %}{% if forloop.index == 2 %}", "{% endif %}{% endfor %}"},
	{"{% for i in one %}", "{% endfor %}"},
	{"{% for i in empty %}{% else %}", "{% endfor %}"},
	{"{% case 1 %}{% when 1 %}", "{% endcase %}"},
	{"{% case 2 %}{% when 1 %}\n{% else %}", "{% endcase %}"},
	{"{% case 1 %}{% when 3, 1 %}", "{% endcase %}"},
	{"{% capture cap %}", "{% endcapture %}"},
	{"{% tablerow tr in one %}", "{% endtablerow %}"},
}

func runC07(c *core.Ctx) {
	mk := func(strict bool) *liquid.Engine {
		e := liquid.NewEngine()
		e.RegisterFilter("vfail", func(v any) (any, error) { return nil, c07Sentinel })
		RegisterCustom(e)
		// a filter that renders a snippet with another engine and hands back that engine's SourceError: the
		// failure of THIS template is still located at the object that applied the filter
		inner := liquid.NewEngine()
		e.RegisterFilter("vinner", func(v any) (any, error) {
			_, err := inner.ParseTemplateLocation([]byte("x\n\n{{ 1 | nosuchinnerfilter"+"_x }}{% endif %}"), "inner-snippet.liquid", 700)
			if err == nil {
				return nil, c07Sentinel
			}
			return nil, err
		})
		if strict {
			e.StrictVariables()
		}
		return e
	}
	e, es := mk(false), mk(true)
	kinds := c07Kinds()
	n := c.Pick(300000, 6000000)
	for i := 0; i < n; i++ {
		if !c.Mine(i) {
			continue
		}
		r := c.Rand(i)
		k := kinds[i%len(kinds)]
		nonce := fmt.Sprintf("%x", r.U64()&0xffffff)
		fail := k.src(nonce)
		depth := r.Range(0, 6)
		if k.topOnly {
			depth = 0
		}
		var sb strings.Builder
		for l := r.Range(0, 8); l > 0; l-- {
			sb.WriteString(c07Pre[r.Intn(len(c07Pre))])
			sb.WriteString("\n")
		}
		var closers []string
		for d := 0; d < depth; d++ {
			o := c07Open[r.Intn(len(c07Open))]
			sb.WriteString(o.open)
			sb.WriteString([]string{"", "\n", " t \n", "\n\n"}[r.Intn(4)])
			closers = append([]string{o.close}, closers...)
		}
		sb.WriteString([]string{"", "lead ", "\t"}[r.Intn(3)])
		off := sb.Len()
		if k.offset != nil {
			off += k.offset(fail)
		}
		sb.WriteString(fail)
		sb.WriteString([]string{"", "\n", " tail\n"}[r.Intn(3)])
		for _, cl := range closers {
			sb.WriteString(cl)
			sb.WriteString([]string{"", "\n"}[r.Intn(2)])
		}
		if !k.topOnly {
			for l := r.Range(0, 4); l > 0; l-- {
				sb.WriteString(c07Pre[r.Intn(len(c07Pre))])
				sb.WriteString("\n")
			}
		}
		src := sb.String()
		path := []string{"", "t.liquid", "d/t.liquid"}[r.Intn(3)]
		start := []int{0, 1, 1000}[r.Intn(3)]
		entry := r.Intn(5)
		if entry == 4 {
			// ParseTemplateAndCache: the path is also a cache key, and is reported exactly as it was given
			path = []string{"t.liquid", "./t.liquid", "d//t.liquid", "d/../t.liquid", "d/t.liquid", "/abs/x/../t.liquid", "d/./e/t.liquid"}[r.Intn(7)]
		} else if entry != 0 {
			path, start = "", 0
		}
		if k.name == "include-missing" || k.name == "include-not-string" {
			// keep include resolution away from the cwd
		}
		eng := e
		if k.strict {
			eng = es
		}
		b := map[string]any{"one": []any{1}, "empty": []any{}, "jn": json.Number("2.5"), "jbig": json.Number("123456789012345678901234567890"), "jhuge": json.Number("1e999")}
		if !c.Begin(fmt.Sprintf("%s path=%q start=%d entry=%d src=%s", k.name, path, start, entry, src)) {
			continue
		}
		var res core.Res
		switch entry {
		case 0:
			if k.strict && (i/len(kinds))%2 == 1 {
				// strict variables switched on after the template was parsed: the failure is reported all the same
				late := mk(false)
				t, pr := core.Parse(late, src, path, start)
				late.StrictVariables()
				if res = pr; pr.OK() {
					res = core.Render(t, b)
				}
				c.Obs("strict_switched_on_after_parse", 1)
				break
			}
			res = core.RunAt(eng, src, path, start, b)
		case 1:
			res = core.Run(eng, src, b)
		case 2:
			res = core.ParseAndRender(eng, src, b)
		case 4:
			if t, pr := core.ParseCache(eng, src, path, start); pr.OK() {
				res = core.Render(t, b)
			} else {
				res = pr
			}
		default:
			res = core.ParseAndRenderString(eng, src, b)
		}
		c.Eval(1)
		c.Obs("kind:"+k.name, 1)
		wantLine := start + strings.Count(src[:off], "\n")
		if wantLine != start || depth > 0 {
			c.Distinct(src, path, fmt.Sprint(start, entry))
		}
		wit := func(problem string) map[string]any {
			return map[string]any{"kind": k.name, "source": src, "path": path, "start_line": start, "entry": []string{"ParseTemplateLocation+Render", "ParseTemplate+Render", "ParseAndRender", "ParseAndRenderString", "ParseTemplateAndCache+Render"}[entry],
				"failing_construct": fail, "expected_line": wantLine, "problem": problem, "observed": res.Brief(), "nesting_depth": depth}
		}
		if i%20011 == 3 {
			c.Sample(wit("(sample)"))
		}
		switch {
		case res.Panic != "" || res.Shape != "":
			c.Violate("malformed|"+k.name+"|"+resClass(res), "a failing template produced a panic or a malformed result instead of a SourceError", wit("panic / output with error / typed nil"))
			continue
		case !res.IsErr:
			c.Violate("no-error|"+k.name, "a failing construct did not produce an error", wit("no error returned"))
			continue
		}
		if res.Path != path {
			c.Violate("path|"+k.name, "SourceError.Path() is not the path the template was parsed with", wit(fmt.Sprintf("Path()=%q", res.Path)))
		}
		if res.Line != wantLine {
			key := "line|" + k.name
			if path == "" {
				key += "|no-path"
			}
			c.Violate(key, "SourceError.LineNumber() is not the line on which the innermost failing tag or object begins", wit(fmt.Sprintf("LineNumber()=%d", res.Line)))
		}
		if k.mustName != "" {
			want := k.mustName
			if strings.Contains(want, "%s") {
				want = fmt.Sprintf(k.mustName, nonce)
			}
			if !strings.Contains(res.Err, want) {
				c.Violate("message|"+k.name, "the error message does not name the unknown tag or filter", wit("message lacks "+want))
			}
		}
		if k.cause >= 1 {
			var cause error
			func() {
				defer func() { recover() }()
				cause = res.SrcErr.Cause()
			}()
			if cause == nil {
				c.Violate("cause-nil|"+k.name, "the failure wraps another error but Cause() is nil", wit("Cause()=nil"))
			} else if k.cause == 2 && !carries(res.SrcErr, c07Sentinel) {
				c.Violate("cause-lost|"+k.name, "the wrapped filter error is not what Cause() leads to", wit("sentinel not reachable from Cause()"))
			} else if k.cause == 3 && !carries(res.SrcErr, errCustomPlain) {
				c.Violate("cause-lost|"+k.name, "the error a tag returned is not what Cause() leads to", wit("the tag's own error is not reachable from Cause()"))
			}
		}
	}
	_ = gen.Nil
}
