package gen

import (
	"go/ast"
	"go/parser"
	"go/token"
	"os"
	"path/filepath"
	"sort"
	"strconv"
	"strings"

	"verif/harness/core"
)

// RepoDir is where the code under test lives.
func RepoDir() string {
	if r := os.Getenv("VERIF_REPO"); r != "" {
		return r
	}
	return "/repo"
}

// Harvest collects every string literal containing "{{" or "{%" from the
// repository's own *_test.go files (at check time, from the current tree).
func Harvest() []string {
	seen := map[string]bool{}
	fset := token.NewFileSet()
	filepath.Walk(RepoDir(), func(p string, info os.FileInfo, err error) error {
		if err != nil || info.IsDir() || !strings.HasSuffix(p, "_test.go") {
			return nil
		}
		f, err := parser.ParseFile(fset, p, nil, 0)
		if err != nil {
			return nil
		}
		ast.Inspect(f, func(n ast.Node) bool {
			if bl, ok := n.(*ast.BasicLit); ok && bl.Kind == token.STRING {
				if s, err := strconv.Unquote(bl.Value); err == nil && (strings.Contains(s, "{{") || strings.Contains(s, "{%")) && len(s) < 4000 {
					seen[s] = true
				}
			}
			return true
		})
		return nil
	})
	out := make([]string, 0, len(seen))
	for s := range seen {
		out = append(out, s)
	}
	sort.Strings(out)
	return out
}

var spliceBits = []string{"{{", "}}", "{%", "%}", "-", "|", ":", ",", ".", "[", "]", "(", ")", "..", "\"", "'", " ", "\n", "=", "==", "contains",
	"%assign ", "{%cycle ", "%loop ", "{%when ", "99999999999999999999", "-1", "0", "nil", "forloop", "endfor", "endif", "else", "in", "size", "first",
	"{% endraw %}", "{% endcomment %}", "{% break %}", "{% continue %}", "{% cycle 'a' %}", "limit:", "offset:", "cols:", "reversed", "x", "1.5", "and", "or", "\\", "\\\"", "\\'", "010", "{% xecho {{ x }} %}", "{% xwrap {{ x }} %}", "{% endxwrap %}"}

// Mutate applies 1..3 random edits to a template source.
func Mutate(r *core.Rand, s string, pool []string) string {
	for k := r.Range(1, 3); k > 0; k-- {
		if len(s) == 0 {
			s = spliceBits[r.Intn(len(spliceBits))]
			continue
		}
		p := r.Intn(len(s) + 1)
		switch r.Intn(9) {
		case 0: // truncate
			s = s[:p]
		case 1: // delete a span
			q := p + r.Intn(6)
			if q > len(s) {
				q = len(s)
			}
			s = s[:p] + s[q:]
		case 2: // insert a bit
			s = s[:p] + spliceBits[r.Intn(len(spliceBits))] + s[p:]
		case 3: // duplicate a span
			q := p + r.Intn(12)
			if q > len(s) {
				q = len(s)
			}
			s = s[:q] + s[p:q] + s[q:]
		case 4: // splice with another template
			if len(pool) > 0 {
				o := pool[r.Intn(len(pool))]
				s = s[:p] + o[r.Intn(len(o)+1):]
			}
		case 5: // inflate a digit run
			for i := 0; i < len(s); i++ {
				if s[i] >= '0' && s[i] <= '9' {
					s = s[:i] + strings.Repeat(string(s[i]), []int{5, 20, 40}[r.Intn(3)]) + s[i:]
					break
				}
			}
		case 6: // flip a quote
			if i := strings.IndexAny(s[p:], "\"'"); i >= 0 {
				b := []byte(s)
				if b[p+i] == '"' {
					b[p+i] = '\''
				} else {
					b[p+i] = '"'
				}
				s = string(b)
			}
		case 7: // drop a delimiter
			ds := []string{"{{", "}}", "{%", "%}"}
			d := ds[r.Intn(4)]
			if i := strings.Index(s[p:], d); i >= 0 {
				s = s[:p+i] + s[p+i+len(d):]
			}
		case 8: // replace a byte
			b := []byte(s)
			if p < len(b) {
				b[p] = "{}%-|:.[]()\"' \n0a\\"[r.Intn(18)]
			}
			s = string(b)
		}
		if len(s) > 6000 {
			s = s[:6000]
		}
	}
	return s
}
