package props

import (
	"fmt"
	"reflect"
	"math"
	"math/big"
	"strings"

	"github.com/osteele/liquid"
	yaml "gopkg.in/yaml.v2"

	"verif/harness/core"
	"verif/harness/gen"
	"verif/harness/ref"
)

func init() {
	core.Register(&core.Prop{
		ID:    "C09",
		Level: "exploration",
		Rule: "EXHAUSTIVE over all ordered pairs of the boundary universe (about 85 Go values spanning nil, booleans, signed/unsigned/float numbers of each width incl. boundary magnitudes, ASCII/Unicode/empty/long strings, empty/nested/typed arrays, maps, structs, ordered maps, times, pointers, Drops): the seven operators ==, !=, <, >, <=, >=, contains and and/or are rendered in {{ a OP b }} and {% if a OP b %} form for (a,b) and (b,a), with operands bound as variables, re-realised in other Go representations (numeric widths incl. unsigned, Drops, typed slices) and spelled as literals where possible. Oracle: reference comparison where the statement defines it, coherence laws (!= is not ==, > is flipped <, <= is < or ==, == reflexive and symmetric) for ALL pairs, no operator ever fails. Plus PRNG and/or combinations. Non-trivial = the two operands are not the same universe member; distinct = distinct (operand descriptors).",
		Exhaustive: func(string) bool { return true },
		Assumptions: []string{
			"mixed int/float pairs with |int| > 2^53, ordering of booleans/arrays/maps, equality of two distinct maps, contains with a non-string needle in a string: not asserted by value, only by the coherence laws and never-fails",
			"NaN is excluded (as the property says)",
		},
		MinEvents: map[string]int64{"pairs": 3000},
		Run:       runC09,
	})
}

var c09Ops = []string{"==", "!=", "<", ">", "<=", ">=", "contains"}

func c09Template() string {
	var sb strings.Builder
	for _, op := range c09Ops {
		fmt.Fprintf(&sb, "{{ a %s b }},", op)
	}
	for _, op := range c09Ops {
		fmt.Fprintf(&sb, "{%% if a %s b %%}true{%% else %%}false{%% endif %%},", op)
	}
	sb.WriteString("{{ a and b }},{{ a or b }},{% if a and b %}true{% else %}false{% endif %},{% if a or b %}true{% else %}false{% endif %},{{ a == a }},{{ a != a }},{{ a <= a }},{{ a >= a }},{{ a < a }}")
	return sb.String()
}

type c09Row struct {
	obj, tag [7]bool
	and, or  bool
	ok       bool
	res      core.Res
}

func c09Render(tpl *liquid.Template, a, b any) (row c09Row, fields []string) {
	r := core.Render(tpl, map[string]any{"a": a, "b": b})
	row.res = r
	if !r.OK() {
		return
	}
	fields = strings.Split(r.Out, ",")
	if len(fields) != 23 {
		return
	}
	for _, f := range fields {
		if f != "true" && f != "false" {
			return
		}
	}
	for i := 0; i < 7; i++ {
		row.obj[i] = fields[i] == "true"
		row.tag[i] = fields[7+i] == "true"
	}
	row.and, row.or = fields[14] == "true", fields[15] == "true"
	row.ok = true
	return
}

func runC09(c *core.Ctx) {
	e := liquid.NewEngine()
	src := c09Template()
	tpl, pr := core.ParsePlain(e, src)
	if !pr.OK() {
		c.Violate("parse", "the comparison template does not parse", map[string]any{"source": src, "observed": pr.Brief()})
		return
	}
	U := gen.ComparableUniverse()
	reps := c.Pick(4, 16)
	idx := 0
	for ai := range U {
		for bi := range U {
			for rep := 0; rep < reps; rep++ {
				idx++
				if !c.Mine(idx) {
					continue
				}
				uu := gen.ComparableUniverse() // fresh values
				ua, ub := uu[ai], uu[bi]
				ga, gb := ua.Go, ub.Go
				if rep > 0 {
					r := c.Rand(idx)
					if ua.Plain {
						ga = gen.Realise(ua.V, r, gen.AllReps, true)
					}
					if ub.Plain {
						gb = gen.Realise(ub.V, r, gen.AllReps, true)
					}
					if !ua.Plain && !ub.Plain {
						continue
					}
				}
				da, db := gen.Describe(ga), gen.Describe(gb)
				if !c.Begin("pair: a=" + da + " b=" + db) {
					continue
				}
				ab, fab := c09Render(tpl, ga, gb)
				ba, _ := c09Render(tpl, gb, ga)
				c.Eval(2)
				c.Obs("pairs", 1)
				if ai != bi {
					c.Distinct(da, db)
				}
				wit := func(extra string) map[string]any {
					return map[string]any{"a": da, "b": db, "template": "{{ a OP b }} and {% if a OP b %} for OP in == != < > <= >= contains; a and b; a or b; a OP a", "a_op_b": ab.res.Brief(), "b_op_a": ba.res.Brief(), "detail": extra}
				}
				if !ab.ok || !ba.ok {
					bad := ab.res
					if ab.ok {
						bad = ba.res
					}
					c.Violate("operator-failed|"+resClass(bad)+"|"+kindOf(ua)+"~"+kindOf(ub), "evaluating an operator failed (error, panic or non-boolean result)", wit(""))
					continue
				}
				viol := func(law, detail string) {
					c.Violate("law|"+law+"|"+kindOf(ua)+"~"+kindOf(ub), "operator coherence law broken: "+law, wit(detail))
				}
				for i, op := range c09Ops {
					if ab.obj[i] != ab.tag[i] {
						viol("object-form-equals-tag-form", op)
					}
				}
				eq, ne, lt, gt, le, ge := ab.obj[0], ab.obj[1], ab.obj[2], ab.obj[3], ab.obj[4], ab.obj[5]
				if ne == eq {
					viol("a!=b is the negation of a==b", "")
				}
				if gt != ba.obj[2] {
					viol("a>b is b<a", "")
				}
				if le != (lt || eq) {
					viol("a<=b is (a<b or a==b)", "")
				}
				if ge != (gt || eq) {
					viol("a>=b is (a>b or a==b)", "")
				}
				if eq != ba.obj[0] {
					viol("== is symmetric", "")
				}
				if fab[18] != "true" || fab[19] != "false" || fab[20] != "true" || fab[21] != "true" || fab[22] != "false" {
					c.Violate("law|reflexive|"+kindOf(ua), "== must be reflexive: a==a, not a!=a, a<=a, a>=a, not a<a", wit(strings.Join(fab[18:23], ",")))
				}
				// reference values where the statement defines them
				if ua.Plain && ub.Plain {
					for i, op := range c09Ops {
						want := ref.Compare(op, ua.V, ub.V)
						if want == ref.Unspec {
							c.Obs("operator_results_unspecified", 1)
							continue
						}
						c.Obs("operator_results_checked", 1)
						if ab.obj[i] != (want == ref.True) {
							c.Violate("value|"+op+"|"+kindOf(ua)+"~"+kindOf(ub), "a comparison operator returned the wrong truth value",
								wit(fmt.Sprintf("%s %s %s: expected %v, engine says %v", ua.V.String(), op, ub.V.String(), want == ref.True, ab.obj[i])))
						}
					}
					wa, wo := ref.Truthy(ua.V) && ref.Truthy(ub.V), ref.Truthy(ua.V) || ref.Truthy(ub.V)
					if ab.and != wa || ab.or != wo || fab[16] != fmt.Sprint(wa) || fab[17] != fmt.Sprint(wo) {
						c.Violate("value|and-or|"+kindOf(ua)+"~"+kindOf(ub), "and/or must treat exactly nil and false as false", wit(fmt.Sprintf("expected and=%v or=%v", wa, wo)))
					}
				}
				// literal spelling
				if rep == 0 && ua.Lit != "" && ub.Lit != "" {
					for i, op := range c09Ops {
						ls := "{% if " + ua.Lit + " " + op + " " + ub.Lit + " %}true{% else %}false{% endif %}"
						r := core.Run(e, ls, nil)
						c.Eval(1)
						if !r.OK() || (r.Out == "true") != ab.obj[i] {
							c.Violate("literal|"+op, "operands spelled as literals compare differently from the same values bound as variables", map[string]any{"source": ls, "observed": r.Brief(), "variables_gave": ab.obj[i]})
						}
					}
				}
				if idx%2003 == 1 {
					c.Sample(map[string]any{"a": da, "b": db, "results(== != < > <= >= contains)": fab[:7]})
				}
			}
		}
	}
	// ---- and/or over operands reached through a property or an index, in every representation ---------------
	// (a Drop, pointer or double Drop nested in a map or array is an operand like its value)
	if c.Shard == 2%c.NShards && c.Begin("andor-nested-representations") {
		type lv struct {
			name   string
			v      any
			truthy bool
		}
		fl, tr, zero, empty := false, true, 0, ""
		var nilInt *int
		var nilStruct *gen.DataStruct
		base := []lv{{"false", false, false}, {"nil", nil, false}, {"true", true, true}, {"zero", 0, true}, {"emptystr", "", true}, {"emptyarr", []any{}, true}, {"emptymap", map[string]any{}, true}, {"nilslice", []int(nil), true}}
		var all []lv
		for _, b := range base {
			all = append(all, b, lv{"DropV(" + b.name + ")", gen.DropV{X: b.v}, b.truthy}, lv{"*DropP(" + b.name + ")", &gen.DropP{X: b.v}, b.truthy}, lv{"DropV(DropV(" + b.name + "))", gen.DropV{X: gen.DropV{X: b.v}}, b.truthy})
		}
		all = append(all, lv{"*false", &fl, false}, lv{"*true", &tr, true}, lv{"*0", &zero, true}, lv{"*\"\"", &empty, true}, lv{"(*int)(nil)", nilInt, false}, lv{"(*DataStruct)(nil)", nilStruct, false},
			lv{"DropV((*int)(nil))", gen.DropV{X: nilInt}, false}, lv{"DropV(*false)", gen.DropV{X: &fl}, false}, lv{"yaml.MapSlice{}", yaml.MapSlice{}, true}, lv{"NBool(false)", gen.NBool(false), false})
		forms := []struct {
			src  string
			want func(t bool) bool
		}{
			{"x and tr", func(t bool) bool { return t }}, {"tr and x", func(t bool) bool { return t }}, {"x or fa", func(t bool) bool { return t }}, {"fa or x", func(t bool) bool { return t }},
			{"x and x", func(t bool) bool { return t }}, {"x or tr", func(bool) bool { return true }}, {"x and fa", func(bool) bool { return false }}, {"nothing or x", func(t bool) bool { return t }},
		}
		for _, o := range all {
			for _, place := range []string{"v", "h.v", "l[0]", "l.first", "h['v']", "d.v"} {
				b := map[string]any{"v": o.v, "h": map[string]any{"v": o.v}, "l": []any{o.v}, "d": gen.DropV{X: map[string]any{"v": o.v}}, "tr": true, "fa": false}
				for _, f := range forms {
					cond := strings.ReplaceAll(f.src, "x", place)
					want := fmt.Sprint(f.want(o.truthy))
					res := core.Run(e, "{% if "+cond+" %}true{% else %}false{% endif %},{{ "+cond+" }}", b)
					c.Eval(1)
					c.Obs("andor_nested_representation_cases", 1)
					c.Distinct("andor-nested", o.name, cond)
					if !res.OK() || res.Out != want+","+want {
						c.Violate("andor-nested|"+place+"|"+resClass(res), "and/or must treat an operand reached through a property or index, whatever its Go representation, as its value: exactly nil and false are false",
							map[string]any{"condition": cond, "operand": o.name, "expected": want, "observed": res.Brief()})
					}
				}
			}
		}
	}
	// ---- reflexivity everywhere: a value equals itself however it is reached and wrapped ------------------------------------
	for ui, u := range gen.ComparableUniverse() {
		if !c.Mine(ui) || !c.Begin("reflexive:"+u.Name) {
			continue
		}
		for _, wrap := range []string{"plain", "DropV", "*DropP"} {
			if wrap != "plain" {
				// one Drop around plain data: Drops of Drops and Drops of pointers are not what the statement speaks of
				g := u.Go
				if _, isDrop := g.(interface{ ToLiquid() any }); isDrop || g != nil && reflect.ValueOf(g).Kind() == reflect.Ptr {
					continue
				}
			}
			mk := func() any {
				v := gen.ComparableUniverse()[ui].Go
				switch wrap {
				case "DropV":
					return gen.DropV{X: v}
				case "*DropP":
					return &gen.DropP{X: v}
				}
				return v
			}
			v := mk()
			b := map[string]any{"v": v, "h": map[string]any{"v": v}, "l": []any{v}, "w": mk()}
			for _, src := range []string{"{% if v == v %}T{% else %}F{% endif %}", "{% if h.v == h.v %}T{% else %}F{% endif %}", "{% if l[0] == h.v %}T{% else %}F{% endif %}", "{% if v != v %}F{% else %}T{% endif %}",
				"{% if h.v == v %}T{% else %}F{% endif %}", "{% if l contains v %}T{% else %}F{% endif %}", "{% if l contains h.v %}T{% else %}F{% endif %}", "{% case h.v %}{% when v %}T{% else %}F{% endcase %}"} {
				if strings.Contains(src, "contains") && (u.Name == "dropdrop" || u.Go != nil && reflect.ValueOf(u.Go).Kind() == reflect.Ptr) {
					continue // what == does with a pointer (or a Drop of a Drop) that is an ELEMENT of an array is not stated
				}
				res := core.Run(e, src, b)
				c.Eval(1)
				c.Obs("reflexivity_cases", 1)
				c.Distinct("refl", u.Name, wrap, src)
				if !res.OK() || res.Out != "T" {
					c.Violate("reflexive|"+wrap+"|"+kindOf(u), "== is reflexive: a value equals itself, wherever it is reached from and whatever Drops wrap it (and an array contains its own element)",
						map[string]any{"value": gen.Describe(v), "source": src, "observed": res.Brief()})
				}
			}
		}
	}
	// ---- contains on text: the needle is text, never the spelling Go gives to some other value -------------------------------
	if c.Shard == 10%c.NShards && c.Begin("string-contains-needles") {
		for _, cs := range []struct {
			hay    string
			needle any
			want   string
		}{{"a<nil>b", nil, "false"}, {"<nil>", nil, "false"}, {"", nil, "false"}, {"abc", "", "true"}, {"a<nil>b", "<nil>", "true"}, {"héllo", "é", "true"}, {"héllo", "e", "false"}, {"abc", gen.NTitle("bc"), "true"},
			{"abc", gen.DropV{X: "b"}, "true"}, {"abc", gen.DropV{X: nil}, "false"}} {
			b := map[string]any{"s": cs.hay, "n": cs.needle, "h": map[string]any{"s": cs.hay}}
			res := core.Run(e, "{% if s contains n %}true{% else %}false{% endif %}|{{ h.s contains n }}", b)
			c.Eval(1)
			c.Obs("string_contains_cases", 1)
			c.Distinct("strcontains", cs.hay, gen.Describe(cs.needle))
			if !res.OK() || res.Out != cs.want+"|"+cs.want {
				c.Violate("string-contains|"+gen.Describe(cs.needle), "a string contains a needle when the needle is text that occurs in it; nil is not text", map[string]any{"string": cs.hay, "needle": gen.Describe(cs.needle), "expected": cs.want, "observed": res.Brief()})
			}
		}
	}
	// ---- contains on maps: the key is found whatever Go type the map gives its keys ---------------------------------------------
	if c.Shard == 11%c.NShards && c.Begin("map-contains-key-types") {
		maps := map[string]any{"map[string]any": map[string]any{"abc": 1, "k": nil}, "map[any]any": map[any]any{"abc": 1, "k": nil, 2: "two"}, "map[string]int": map[string]int{"abc": 1, "k": 0},
			"map[NTitle]any": map[gen.NTitle]any{"abc": 1, "k": nil}, "NDict": gen.NDict{"abc": 1, "k": nil}, "ordered map": yaml.MapSlice{{Key: "abc", Value: 1}, {Key: "k", Value: nil}},
			"Drop of map[any]any": gen.DropV{X: map[any]any{"abc": 1, "k": nil}}, "pointer to map": &map[string]any{"abc": 1, "k": nil}}
		for name, m := range maps {
			res := core.Run(e, "{% if m contains 'abc' %}T{% else %}F{% endif %}{% if m contains 'k' %}T{% else %}F{% endif %}{% if m contains 'zz' %}T{% else %}F{% endif %}{% if h.m contains key %}T{% else %}F{% endif %}{{ m contains 'abc' }}",
				map[string]any{"m": m, "h": map[string]any{"m": m}, "key": "abc"})
			c.Eval(1)
			c.Obs("map_contains_cases", 1)
			c.Distinct("mapcontains", name)
			if !res.OK() || res.Out != "TTFTtrue" {
				c.Violate("map-contains|"+name, "a map contains a key when it has an entry under it (also one bound to nil), whatever Go type the map has", map[string]any{"map": name, "expected": "TTFTtrue", "observed": res.Brief()})
			}
		}
	}
	// ---- integers at the edges of the signed and unsigned ranges compare by numeric value ---------------------------
	if c.Shard == 4%c.NShards && c.Begin("integer-extremes") {
		type iv struct {
			g any
			v *big.Int
		}
		bi := func(s string) *big.Int { x, _ := new(big.Int).SetString(s, 10); return x }
		vals := []iv{{uint64(math.MaxUint64), bi("18446744073709551615")}, {uint64(1) << 63, bi("9223372036854775808")}, {uint64(math.MaxInt64), bi("9223372036854775807")}, {uint(0), bi("0")},
			{uint8(255), bi("255")}, {uint16(7), bi("7")}, {uint32(math.MaxUint32), bi("4294967295")}, {uintptr(5), bi("5")}, {gen.NUint(7), bi("7")},
			{-1, bi("-1")}, {0, bi("0")}, {5, bi("5")}, {int64(math.MaxInt64), bi("9223372036854775807")}, {int64(math.MinInt64), bi("-9223372036854775808")}, {int8(-7), bi("-7")}, {7, bi("7")}, {255, bi("255")},
			{int32(-1), bi("-1")}, {gen.NInt(-7), bi("-7")}}
		ops := []string{"==", "!=", "<", ">", "<=", ">="}
		for _, a := range vals {
			for _, b := range vals {
				cmp := a.v.Cmp(b.v)
				want := []bool{cmp == 0, cmp != 0, cmp < 0, cmp > 0, cmp <= 0, cmp >= 0}
				for k, op := range ops {
					res := core.Run(e, "{% if a "+op+" b %}true{% else %}false{% endif %},{{ a "+op+" b }}", map[string]any{"a": a.g, "b": b.g})
					c.Eval(1)
					c.Obs("integer_extreme_cases", 1)
					c.Distinct("intext", gen.Describe(a.g), op, gen.Describe(b.g))
					if w := fmt.Sprint(want[k]); !res.OK() || res.Out != w+","+w {
						c.Violate("integer-extremes|"+op, "integers of every width and signedness compare by numeric value (an unsigned value above the largest int64 is larger than every signed one)",
							map[string]any{"a": gen.Describe(a.g), "b": gen.Describe(b.g), "operator": op, "expected": w, "observed": res.Brief()})
					}
				}
				// contains on an array holding the value
				res := core.Run(e, "{% if l contains b %}true{% else %}false{% endif %}", map[string]any{"l": []any{"x", a.g}, "b": b.g})
				c.Eval(1)
				if w := fmt.Sprint(cmp == 0); !res.OK() || res.Out != w {
					c.Violate("integer-extremes|contains", "array contains uses ==: integers of every width and signedness compare by numeric value",
						map[string]any{"array_element": gen.Describe(a.g), "needle": gen.Describe(b.g), "expected": w, "observed": res.Brief()})
				}
			}
		}
	}
	// ---- and/or combinations -------------------------------------------------------------
	m := &ref.Model{}
	n := c.Pick(100000, 2000000)
	for i := 0; i < n; i++ {
		if !c.Mine(i) {
			continue
		}
		r := c.Rand(i, 3)
		env := gen.StdEnv(r)
		g := gen.NewG(r, gen.Features{Model: true}, env)
		var cond gen.Expr = gen.Logic{Op: []string{"and", "or"}[r.Intn(2)], A: g.Cond(0), B: g.Cond(0)}
		if r.Bool() {
			cond = gen.Logic{Op: []string{"and", "or"}[r.Intn(2)], A: cond, B: g.Cond(1)}
		}
		cs := gen.DefaultStyle.ExprSource(cond)
		if !c.Begin("andor:" + cs + " env=" + env.String()) {
			continue
		}
		v, s := m.Eval(cond, env)
		if s != ref.OK {
			c.Skip("and/or combination not determined by the statement")
			continue
		}
		res := core.Run(e, "{% if "+cs+" %}true{% else %}false{% endif %},{{ "+cs+" }}", gen.CanonEnv(env))
		c.Eval(1)
		c.Obs("andor_cases", 1)
		c.Distinct("andor", cs, env.String())
		want := fmt.Sprint(ref.Truthy(v))
		if !res.OK() || res.Out != want+","+want {
			c.Violate("andor|"+resClass(res), "an and/or combination evaluated to the wrong truth value", map[string]any{"condition": cs, "bindings": env.String(), "expected": want, "observed": res.Brief()})
		}
	}
}

// kindOf names the kind class of a universe member for violation keys.
func kindOf(u gen.UVal) string {
	if u.Plain {
		return []string{"nil", "bool", "int", "float", "string", "array", "map"}[u.V.K]
	}
	return u.Name
}
