package props

import (
	"github.com/osteele/liquid"

	"verif/harness/core"
	"verif/harness/gen"
	"verif/harness/ref"
)

// modelCompare renders prog with the reference model and with the engine and
// compares. It returns false when the model leaves the result unspecified
// (the case is counted as skipped, never judged).
func modelCompare(c *core.Ctx, e *liquid.Engine, m *ref.Model, prog []gen.Node, env gen.Env, b map[string]any, st gen.Style, key, what string) bool {
	exp, status := m.Render(prog, env)
	if status == ref.Unsp {
		c.Skip("reference model: result not determined by the property statements")
		return false
	}
	src := st.Source(prog)
	if b == nil {
		b = gen.CanonEnv(env)
	}
	r := core.Run(e, src, b)
	c.Eval(1)
	wit := func() map[string]any {
		w := map[string]any{"source": src, "bindings": env.String(), "observed": r.Brief()}
		if status == ref.Err {
			w["expected"] = "an error (SourceError)"
		} else {
			w["expected"] = exp
		}
		return w
	}
	switch {
	case r.Panic != "" || r.Shape != "":
		c.Violate(key+"|"+resClass(r), what+": the engine panicked or returned a malformed result", wit())
	case status == ref.Err:
		if !r.IsErr {
			c.Violate(key+"|no-error", what+": the statement requires an error, the engine produced output", wit())
		}
	case r.IsErr:
		c.Violate(key+"|error", what+": the engine failed where the statement defines the output", wit())
	case ref.NormTable(r.Out) != ref.NormTable(exp):
		c.Violate(key+"|wrong-output", what, wit())
	}
	return true
}

// expectOut runs src and requires exactly the output want.
func expectOut(c *core.Ctx, e *liquid.Engine, src string, b map[string]any, want, key, what string, extra map[string]any) core.Res {
	r := core.Run(e, src, b)
	c.Eval(1)
	if !r.OK() || r.Out != want {
		w := map[string]any{"source": src, "bindings": gen.DescribeEnv(b), "expected": want, "observed": r.Brief()}
		for k, v := range extra {
			w[k] = v
		}
		c.Violate(key+"|"+resClass(r), what, w)
	}
	return r
}

// plainU returns the universe members that are plain logical data.
func plainU() []gen.UVal {
	var out []gen.UVal
	for _, u := range gen.Universe() {
		if u.Plain {
			out = append(out, u)
		}
	}
	return out
}
