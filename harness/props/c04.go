package props

import (
	"fmt"
	"runtime"
	"sort"
	"strings"
	"sync"
	"time"

	"github.com/osteele/liquid"
	"github.com/osteele/liquid/render"
	"github.com/osteele/liquid/values"
	"github.com/osteele/liquid/verifhook"
	yaml "gopkg.in/yaml.v2"

	"verif/harness/core"
	"verif/harness/gen"
)

func init() {
	core.Register(&core.Prop{
		ID:            "C04",
		Level:         "exploration",
		Race:          true,
		Shards:        4,
		NoHangMonitor: true,
		Rule:          "one configured engine per round; templates = one per registered standard tag and per registered standard filter (enumerated from the engine's tables at run time) plus generated programs; in every round N in {2,4,8,16,32} goroutines render THE SAME parsed *Template objects, parse the same sources and register templates with ParseTemplateAndCache concurrently, sharing one set of binding values (incl. Drops by value and by pointer, Drops pre-wrapped with values.ValueOf that are still unresolved when each burst starts, typed slices, maps, IterationKeyedMap, MapSlice), under GOMAXPROCS in {1,2,4,16}, with schedule perturbation through verifhook.Yield and through yielding callbacks (Drop.ToLiquid, io.Writer, a registered tag); built with -race. Each operation is recorded at the client boundary (goroutine, kind, template, call/return timestamp from one monotonic clock, result hash). Oracle: no race report whose stack contains the repository; every concurrent result equals the single-threaded result computed before and after (in the first round of every worker process only after: nothing is rendered before the goroutines start, so process-wide lazily built tables are built under contention). Interleaving coverage = distinct overlapping (template_i, template_j) pairs, including a template overlapping itself. Non-trivial = an operation that overlapped another operation in time; distinct = distinct overlapping pairs.",
		Exhaustive:    func(string) bool { return false },
		Assumptions: []string{
			"the sequential specification of every operation is a pure function of its arguments (what C02/C03 establish), so a history is linearizable iff every operation returned the sequential value: an O(n) check, no search",
			"the static 'for all schedules' clause of the quantifier is outside runtime monitoring and is not attempted; every standard tag and filter closure is instead executed by several goroutines at once under the race detector",
			"application tags and blocks are covered as far as the render.Context methods they call go (a fixed set registered by the harness); arbitrary user code inside tags, filters and Drops is not",
		},
		MinEvents: map[string]int64{"concurrent_operations": 20000, "self_overlapping_templates": 20, "fixed_template_seen:tag include": 1},
		Post:      c04Post,
		Run:       runC04,
	})
}

// c04Post: every fixed (per tag / per filter) template must have been observed running concurrently with
// itself in at least one round; otherwise there is no verdict for the closure it exercises.
func c04Post(m *core.Merged) []string {
	var out []string
	for k, v := range m.Obs {
		if strings.HasPrefix(k, "fixed_template_seen:") && v > 0 {
			name := strings.TrimPrefix(k, "fixed_template_seen:")
			if m.Obs["fixed_template_self_overlapped:"+name] == 0 {
				out = append(out, "the template for "+name+" was never observed running concurrently with itself: no verdict for it")
			}
		}
	}
	sort.Strings(out)
	return out
}

type yieldDrop struct{ v any }

func (d *yieldDrop) ToLiquid() any { runtime.Gosched(); return d.v }

type yieldWriter struct{ sb strings.Builder }

func (w *yieldWriter) Write(p []byte) (int, error) { runtime.Gosched(); return w.sb.Write(p) }

var c04TagTemplates = map[string]string{
	"assign":   "{% assign v = arr | sort %}{{ v | join: ',' }}{% assign w = 1 %}{{ w }}",
	"capture":  "{% capture c %}x{{ s }}{% for i in arr %}{{ i }}{% endfor %}{% endcapture %}[{{ c }}]",
	"case":     "{% case n %}{% when 1 %}one{% when 2, 3 %}few{% else %}many{% endcase %}",
	"comment":  "a{% comment %} {{ x }} {% endcomment %}b",
	"for":      "{% for x in arr reversed offset: 1 limit: 3 %}{{ forloop.index }}:{{ x }}{% else %}none{% endfor %}{% for kv in m %}{{ kv[0] }}{% endfor %}",
	"if":       "{% if n > 1 and t %}A{% elsif s contains 'a' %}B{% else %}C{% endif %}",
	"raw":      "{% raw %}{{ raw }}{% endraw %}",
	"tablerow": "{% tablerow x in arr cols: 2 %}{{ x }}{% endtablerow %}",
	"unless":   "{% unless fa %}U{% else %}V{% endunless %}",
	"break":    "{% for x in arr %}{{ x }}{% if forloop.index == 2 %}{% break %}{% endif %}{% endfor %}",
	"continue": "{% for x in arr %}{% if forloop.first %}{% continue %}{% endif %}{{ x }}{% endfor %}",
	"cycle":    "{% for x in arr %}{% cycle 'a', 'b', 'c' %}{% cycle 'g': '1', '2' %}{% endfor %}",
	// application tags and blocks written against render.Context (see custom.go)
	"xecho":      "{% xecho pre-{{ n }}-{{ s | upcase }}-post %}",
	"xeval":      "{% xeval n | plus: 1 %}{% xeval arr | join: ',' %}",
	"xset":       "{% xset v = arr | first %}{{ v }}{% xset s = 'shadow' %}{{ s }}",
	"xget":       "{% xget n %}{% xget nosuch %}",
	"xinfo":      "{% xinfo a b %}",
	"xfile":      "{% xfile inc.html %}{% xfile {{ 'inc2' | append: '.html' }} %}",
	"xfail":      "a{% xfail now %}b",
	"xwrapfail":  "{% xwrapfail %}",
	"xplainfail": "{% for i in (1..2) %}{% xplainfail %}{% endfor %}",
	"xwrap":      "{% xwrap {{ n }} %}{% for x in arr %}{{ x }}{% endfor %}{% endxwrap %}",
	"xtwice":     "{% xtwice %}{% cycle 'a', 'b' %}{{ s }}{% endxtwice %}",
	"xwhen":      "{% xwhen n > 0 %}yes {{ n }}{% endxwhen %}{% xwhen nothing %}no{% endxwhen %}",
	"xbfile":     "{% xbfile inc3.html %}ignored{% endxbfile %}",
	"xbfail":     "{% xbfail x %}{% endxbfail %}",
	"xbplain":    "{% xbplain %}{{ n }}{% endxbplain %}",
	"include":    "{% include 'inc.html' %}|{% for i in (1..2) %}{% include 'inc2.html' %}{% endfor %}{% include 'inc3.html' %}",
}

func c04FilterTemplate(name string) string {
	switch name {
	case "append", "prepend", "remove", "remove_first", "split":
		return "{{ s | " + name + ": 'a' }}"
	case "replace", "replace_first":
		return "{{ s | " + name + ": 'a', 'b' }}"
	case "slice":
		return "{{ s | slice: 1, 2 }}"
	case "truncate", "truncatewords":
		return "{{ s | " + name + ": 3 }}"
	case "plus", "minus", "times", "divided_by", "modulo":
		return "{{ n | " + name + ": 3 }}{{ f | " + name + ": 2 }}"
	case "abs", "ceil", "floor", "round":
		return "{{ f | " + name + " }}{{ n | " + name + " }}"
	case "concat":
		return "{{ arr | concat: sarr | join: ',' }}"
	case "join":
		return "{{ arr | join: '-' }}{{ drops | join: ',' }}"
	case "map":
		return "{{ objs | map: 'name' | join: ',' }}"
	case "sort":
		return "{{ arr | sort | join: ',' }}{{ objs | sort: 'name' | map: 'id' | join: ',' }}{{ drops | sort | join: ',' }}"
	case "sort_natural", "uniq", "reverse", "compact":
		return "{{ sarr | " + name + " | join: ',' }}{{ arr | " + name + " | join: ',' }}"
	case "first", "last", "size":
		return "{{ arr | " + name + " }}{{ sarr | " + name + " }}{{ s | " + name + " }}"
	case "date":
		return "{{ tm | date: '%Y-%m-%d %H:%M' }}"
	case "default":
		return "{{ nothing | default: 'd' }}{{ s | default: 'd' }}"
	}
	return "{{ s | " + name + " }}{{ n | " + name + " }}"
}

type c04op struct {
	g     int
	kind  string
	tpl   int
	call  int64
	ret   int64
	hash  uint64
	brief string
}

func runC04(c *core.Ctx) {
	rounds := c.Pick(16, 160)
	for round := 0; round < rounds; round++ {
		if !c.Mine(round) {
			continue
		}
		c04Round(c, round)
	}
}

// c04barrier is a reusable barrier for n goroutines.
type c04barrier struct {
	mu    sync.Mutex
	cond  *sync.Cond
	n, in int
	phase int
}

func (b *c04barrier) wait() {
	b.mu.Lock()
	ph := b.phase
	b.in++
	if b.in == b.n {
		b.in = 0
		b.phase++
		b.cond.Broadcast()
	} else {
		for ph == b.phase {
			b.cond.Wait()
		}
	}
	b.mu.Unlock()
}

// c04FirstRound: true until the first round of this worker process has started.
var c04FirstRound = true

func c04Round(c *core.Ctx, round int) {
	r := c.Rand(round)
	mkEngine := func() *liquid.Engine {
		e := liquid.NewEngine()
		e.RegisterTag("vyield", func(render.Context) (string, error) { runtime.Gosched(); return "", nil })
		RegisterCustom(e)
		for _, inc := range []string{"c04/inc.html", "c04/inc2.html", "c04/inc3.html"} {
			if _, err := e.ParseTemplateAndCache([]byte("[inc "+inc+" {{ n }}{% for q in (1..2) %}{% cycle 'x', 'y' %}{% endfor %}]"), inc, 1); err != nil {
				panic(err)
			}
		}
		return e
	}
	// e is the engine under test: after configuration it is touched by the concurrent phase first, so that
	// anything initialised lazily is initialised under contention. twin is an identically configured engine
	// that provides the single-threaded results.
	e, twin := mkEngine(), mkEngine()
	// a second pair of engines configured through Delims with empty strings (= defaults) and custom tag delimiters
	ed, edTwin := mkEngine().Delims("", "", "<%", "%>"), mkEngine().Delims("", "", "<%", "%>")
	edSrc := "a {{ n }} <% if t %>yes<%- else -%>no<% endif %> {{ s | upcase }}<% for i in arr %>{{ i }},<% endfor %>"
	// (what the twin engines give is computed after the concurrent phase in a cold round, see below)
	var edGot, dynGot []core.Res
	// configuration phase is over; from here on the engine is only used
	filters, tags, blocks := engineNames(e)
	if len(filters) == 0 { // the tables could not be read by reflection (renamed fields): use the static lists
		filters = StaticFilters
		c.Obs("filter_table_not_reflectable", 1)
	}
	if len(tags)+len(blocks) == 0 {
		for name := range c04TagTemplates {
			tags = append(tags, name)
		}
		sort.Strings(tags)
		c.Obs("tag_table_not_reflectable", 1)
	}
	var srcs []string
	var fixedNames []string // fixedNames[i] names what srcs[i] exercises, for the per-tag / per-filter templates
	covered := map[string]bool{}
	for _, name := range append(append([]string{}, tags...), blocks...) {
		if strings.HasPrefix(name, "end") || name == "else" || name == "elsif" || name == "when" || name == "vyield" {
			continue
		}
		if t, ok := c04TagTemplates[name]; ok {
			srcs = append(srcs, t)
		} else {
			srcs = append(srcs, "{% "+name+" %}")
			c.Obs("tags_without_dedicated_template", 1)
		}
		fixedNames = append(fixedNames, "tag "+name)
		covered[name] = true
	}
	for _, name := range filters {
		srcs = append(srcs, c04FilterTemplate(name))
		fixedNames = append(fixedNames, "filter "+name)
	}
	c.ObsMax("max:registered_filters", int64(len(filters)))
	c.ObsMax("max:registered_tags_and_blocks", int64(len(covered)))
	env := gen.StdEnv(r)
	for i := 0; i < c.Pick(40, 200); i++ {
		f := gen.FullFeatures()
		f.Errors = i%5 == 0
		f.MapLoops = true
		f.Probe = "vyield"
		g := gen.NewG(r, f, env)
		srcs = append(srcs, gen.DefaultStyle.Source(g.Program()))
	}
	b := gen.RealiseEnv(env, r, gen.Rep{Drops: true, Typed: true})
	b["drops"] = []any{gen.DropV{X: 3}, &gen.DropP{X: 1}, gen.DropV{X: 2}}
	b["ydrop"] = &yieldDrop{v: []any{1, 2, 3}}
	b["keyed"] = liquid.IterationKeyedMap(map[string]any{"a": 1, "b": 2})
	b["ordered"] = yaml.MapSlice{{Key: "a", Value: 1}, {Key: "b", Value: 2}}
	b["tm"] = time.Date(2020, 2, 3, 4, 5, 6, 0, time.UTC)
	b["nothing"] = nil
	// struct types with liquid tags, methods with value and pointer receivers: looked up through per-type tables
	b["ta"], b["tb"] = gen.TaggedA{Name: "lamp", Price: 5, Sku: "SKU-1"}, &gen.TaggedB{Email: "ada@example.org", Full: "Ada", Sku: 7}
	b["msv"], b["msp"] = gen.MethodStruct{Title: "Hello World"}, &gen.MethodStruct{Title: "Other Title"}
	b["tas"] = []any{gen.TaggedA{Name: "a", Price: 1}, &gen.TaggedB{Email: "b@x", Full: "B"}, gen.TaggedA{Name: "c", Price: 3}, &gen.TaggedB{Email: "d@x", Full: "D"}}
	// date strings in many layouts: parsing them consults process-wide tables from every goroutine
	tm0 := time.Date(2021, 3, 4, 5, 6, 7, 0, time.UTC)
	var dstrs []any
	for _, layout := range []string{time.ANSIC, time.UnixDate, time.RubyDate, time.RFC822, time.RFC822Z, time.RFC850, time.RFC1123, time.RFC1123Z, time.RFC3339, "2006-01-02", "2006-01-02 15:04:05", "Jan 2 2006", "January 2, 2006", "2006-01-02 15:04:05 -0700"} {
		dstrs = append(dstrs, tm0.Format(layout))
	}
	b["dstrs"] = dstrs
	b["dlast"], b["dfirst"] = dstrs[len(dstrs)-1], dstrs[0]
	// Drops already wrapped as values.Value and shared by all renders (the library's own TestDrop_Resolve_race does
	// this): replaced by fresh, unresolved wrappers before every concurrent burst, so that the first resolution
	// itself happens under contention
	freshWrapped := func() {
		b["wdrop"] = values.ValueOf(&yieldDrop{v: []any{1, 2, 3}})
		b["wdrop2"] = values.ValueOf(gen.DropV{X: map[string]any{"k": "v", "l": []any{1, 2}}})
		b["wdrop3"] = values.ValueOf(&yieldDrop{v: "text"})
	}
	freshWrapped()
	srcs = append(srcs, "{{ wdrop | join: ',' }}{% for x in wdrop %}{{ x }}{% endfor %}{{ wdrop.first }}{{ wdrop.size }}", "{{ wdrop2.k }}{{ wdrop2.l | join: '+' }}{{ wdrop3 | upcase }}{{ wdrop3 }}{% if wdrop contains 2 %}c{% endif %}{% for kv in wdrop2 %}{{ kv[0] }}{% endfor %}")
	srcs = append(srcs, "{{ ta.label }}:{{ ta.cost }}:{{ ta.Sku }}", "{{ tb.label }} <{{ tb.cost }}> {{ tb.Sku }}", "{% for x in tas %}{{ x.label }}/{{ x.cost }};{% endfor %}", "{{ msv.Title }}|{{ msv.Upper }}|{{ msv.Slug }}", "{{ msp.Upper }}|{{ msp.Slug }}|{{ msp.Title }}")
	srcs = append(srcs, "{% for d in dstrs %}{{ d | date: '%Y-%m-%d %H:%M' }};{% endfor %}", "{{ dlast | date: '%Y %j' }}{{ dfirst | date: '%H' }}{{ dstrs[7] | date: '%d' }}{{ dstrs[3] | date: '%m' }}", "{% for d in dstrs reversed %}{{ d | date: '%y' }}{% endfor %}")
	srcs = append(srcs, "{{ ydrop | join: ',' }}{% for x in ydrop %}{{ x }}{% endfor %}{{ ydrop.first }}", "{% for k in keyed %}{{ k }}{% endfor %}{{ ordered.a }}{% for kv in ordered %}{{ kv[1] }}{% endfor %}")

	// templates that are REJECTED (a clause or end tag where none may stand): the error paths of the parser consult
	// tables too. They are put at odd positions, which are first parsed inside the concurrent phase.
	for _, bad := range []string{"a{% else %}b", "{% if t %}{% when 1 %}{% endif %}", "{% for i in arr %}{% elsif t %}{% endfor %}", "x{% endif %}", "{% case n %}{% elsif t %}{% endcase %}",
		"{% unless t %}{% when 2 %}{% endunless %}", "{% capture c %}{% else %}{% endcapture %}", "{% xwrap a %}{% when 1 %}{% endxwrap %}", "{% if t %}{% endfor %}", "{% nosuchtag %}", "{{ n | nosuchfilter }}",
		"{% include 'c04/never-there.html' %}", "{% for i in arr %}{% include 'c04/never-there.html' %}{% endfor %}"} {
		if len(srcs)%2 == 0 {
			srcs = append(srcs, "filler {{ n }}")
		}
		srcs = append(srcs, bad)
	}
	// large containers shared by every goroutine and compared as wholes: equal ones, and ones that differ in the last place
	bigA, bigB, bigC := make([]any, 3000), make([]any, 3000), make([]any, 3000)
	bigM, bigN := map[string]any{}, map[string]any{}
	for i := range bigA {
		bigA[i], bigB[i], bigC[i] = i, i, i
		bigM[fmt.Sprint("k", i)], bigN[fmt.Sprint("k", i)] = i, i
	}
	bigB[len(bigB)-1], bigN["k2999"] = -1, -1
	b["bigA"], b["bigB"], b["bigC"], b["bigM"], b["bigN"], b["bigs"] = bigA, bigB, bigC, bigM, bigN, []any{bigB, bigA}
	srcs = append(srcs, "{% if bigA == bigB %}eq{% else %}ne{% endif %}{% if bigA != bigB %}ne{% else %}eq{% endif %}{% if bigA == bigC %}eq{% else %}ne{% endif %}{% if bigM == bigN %}eq{% else %}ne{% endif %}",
		"{% if bigs contains bigA %}has{% else %}not{% endif %}{% if bigA == bigB %}eq{% else %}ne{% endif %}{% case bigA %}{% when bigB %}B{% when bigC %}C{% else %}none{% endcase %}{{ bigs | uniq | size }}",
		"{% if bigB == bigA %}eq{% else %}ne{% endif %}{% if bigN != bigM %}ne{% else %}eq{% endif %}{% if bigA <= bigB %}le{% else %}gt{% endif %}")

	if !c.Begin(fmt.Sprintf("round %d: %d templates", round, len(srcs))) {
		return
	}
	// ---- sequential baseline ----------------------------------------------------------------------
	// In the first round of every worker process nothing at all is rendered before the goroutines start (cold): whatever the
	// library builds lazily for the whole process (tables per type, per parameter type, per layout) is then built under
	// contention; the baseline is computed afterwards. In later rounds it is computed before, as a twin-engine reference.
	cold := c04FirstRound
	c04FirstRound = false
	tpls := make([]*liquid.Template, len(srcs))
	parseBase := make([]core.Res, len(srcs))
	base := make([]core.Res, len(srcs))
	for i, s := range srcs {
		if i%2 == 0 {
			// half of the templates are parsed on e beforehand (the same *Template is then shared by all goroutines);
			// the other half is first parsed on e inside the concurrent phase
			tpls[i], _ = core.Parse(e, s, "c04/top.html", 1)
		}
	}
	baseline := func() {
		for i, s := range srcs {
			t, pr := core.Parse(twin, s, "c04/top.html", 1)
			parseBase[i] = pr
			if pr.OK() {
				base[i] = core.Render(t, b)
			} else {
				base[i] = pr
			}
		}
	}
	if !cold {
		baseline()
	} else {
		c.Obs("cold_rounds", 1)
	}
	dynSrc := "[dyn {{ n }}{% for q in (1..2) %}{{ q }}{% endfor %}]"
	verifhook.SetBudget(0)
	verifhook.SetConcurrent(true) // hooks must not synchronise the goroutines under test (see verifhook)
	defer verifhook.SetConcurrent(false)
	// ---- concurrent phase ---------------------------------------------------------------------------
	t0 := time.Now()
	var opsMu sync.Mutex
	var ops []c04op
	// operations are counted per goroutine and added up when the goroutine is done: a shared atomic counter touched after
	// every operation would order the goroutines for the race detector (release/acquire on one variable) and hide races
	// between an operation of one goroutine and the next operation of another
	var nops int64
	configs := []struct{ n, procs int }{{2, 1}, {4, 2}, {8, 4}, {16, 16}, {32, 16}, {4, 16}, {8, 1}}
	if cold {
		// the first burst of a cold process is the widest one: the race detector remembers only the last few accesses to a
		// memory cell, so a first-use write is only caught by reads that come right after it, on other processors
		configs = []struct{ n, procs int }{{16, 16}, {32, 16}, {2, 1}, {4, 2}, {8, 4}, {4, 16}, {8, 1}}
	}
	reps := c.Pick(2, 3)
	coldDone := false
	for _, cfg := range configs {
		for rep := 0; rep < reps; rep++ {
			old := runtime.GOMAXPROCS(cfg.procs)
			freshWrapped() // no goroutine of the previous burst is alive (wg.Wait), none of this one has started
			verifhook.SetYield([]uint32{0, 64, 512}[(rep+cfg.n)%3])
			var wg sync.WaitGroup
			start := make(chan struct{})
			var lockstep *c04barrier
			if cold && !coldDone {
				lockstep, coldDone = &c04barrier{n: cfg.n}, true
				lockstep.cond = sync.NewCond(&lockstep.mu)
			}
			for g := 0; g < cfg.n; g++ {
				wg.Add(1)
				go func(g int) {
					defer wg.Done()
					gr := core.NewRand(c.Seed, uint64(round), uint64(cfg.n), uint64(cfg.procs), uint64(rep), uint64(g))
					local := make([]c04op, 0, 256)
					<-start
					if round%2 == 0 || g%2 == 0 { // the Delims-configured engine is first used here, by several goroutines at once
						got := core.Run(ed, edSrc, nil)
						opsMu.Lock()
						edGot = append(edGot, got)
						opsMu.Unlock()
					}
					// registering templates for include is parsing too: several goroutines register (the same content under a few
					// paths) while others render includes
					dyn := fmt.Sprintf("dyn%d.html", g%3)
					if _, pr := core.ParseCache(e, dynSrc, "c04/"+dyn, 1); !pr.OK() {
						opsMu.Lock()
						c.Violate("concurrent-differs-from-sequential|ParseTemplateAndCache", "registering a template concurrently failed", map[string]any{"observed": pr.Brief()})
						opsMu.Unlock()
					} else {
						got := core.RunAt(e, "{% include '"+dyn+"' %}|{% include 'inc.html' %}", "c04/top.html", 1, b)
						opsMu.Lock()
						dynGot = append(dynGot, got)
						opsMu.Unlock()
					}
					mine := int64(2)
					// every goroutine walks the templates in the same rotation so that the same *Template overlaps itself
					for k := 0; k < len(srcs); k++ {
						i := (k + g/4) % len(srcs)
						if lockstep != nil {
							// cold burst: every goroutine renders the same template at the same moment. What the library builds on
							// first use is then written by one goroutine while the others read it; the barrier orders the goroutines
							// only between steps, never within one.
							i = k
							lockstep.wait()
						}
						kind := gr.Intn(6)
						op := c04op{g: g, tpl: i, call: int64(time.Since(t0))}
						var res core.Res
						if tpls[i] == nil { // not parsed on e yet: parse it here, under contention
							kind = []int{3, 0}[kind%2]
						}
						switch {
						case kind == 0:
							op.kind = "Parse"
							_, res = core.Parse(e, srcs[i], "c04/top.html", 1)
							if res.OK() {
								res = core.Res{Out: "parsed"}
							}
						case kind == 1:
							op.kind = "RenderString"
							res = core.RenderString(tpls[i], b)
						case kind == 2:
							op.kind = "FRender"
							w := &yieldWriter{}
							res = core.FRender(tpls[i], w, b)
							if res.OK() {
								res.Out = w.sb.String()
							}
						case kind == 3:
							op.kind = "ParseAndRender"
							t, pr := core.Parse(e, srcs[i], "c04/top.html", 1)
							if pr.OK() {
								res = core.Render(t, b)
							} else {
								res = pr
							}
						default:
							op.kind = "Render"
							res = core.Render(tpls[i], b)
						}
						op.ret = int64(time.Since(t0))
						op.brief = res.Brief()
						op.hash = core.HashString(op.brief)
						local = append(local, op)
						mine++
					}
					opsMu.Lock()
					ops = append(ops, local...)
					nops += mine
					opsMu.Unlock()
				}(g)
			}
			close(start)
			wg.Wait()
			runtime.GOMAXPROCS(old)
		}
	}
	verifhook.SetYield(0)
	if cold {
		baseline()
	}
	// the single-threaded answers of the twin engines
	if probe := core.RunAt(twin, c04TagTemplates["include"], "c04/top.html", 1, b); !probe.OK() {
		// the include template must really include (a wrong path would only ever exercise the error path)
		c.Violate("harness|include-template-fails", "the include template of the concurrency workload does not render on the twin engine", map[string]any{"observed": probe.Brief()})
	}
	edWant := core.Run(edTwin, edSrc, nil)
	for _, got := range edGot {
		if !got.Same(edWant) {
			c.Violate("concurrent-differs-from-sequential|custom-delims", "a concurrent parse+render on an engine configured with Delims returned something else than when run alone",
				map[string]any{"source": edSrc, "sequential": edWant.Brief(), "concurrent": got.Brief()})
			break
		}
	}
	core.ParseCache(twin, dynSrc, "c04/dyn0.html", 1)
	dynWant := core.RunAt(twin, "{% include 'dyn0.html' %}|{% include 'inc.html' %}", "c04/top.html", 1, b)
	for _, got := range dynGot {
		if !got.Same(dynWant) {
			c.Violate("concurrent-differs-from-sequential|include-of-registered", "an include of a template registered concurrently returned something else than when run alone",
				map[string]any{"sequential": dynWant.Brief(), "concurrent": got.Brief()})
			break
		}
	}
	c.Eval(int(nops))
	c.Obs("concurrent_operations", nops)
	// ---- sequential baseline (after) ------------------------------------------------------------------
	for i, s := range srcs {
		var again core.Res
		if tpls[i] != nil {
			again = core.Render(tpls[i], b)
		} else if t, pr := core.Parse(e, s, "c04/top.html", 1); pr.OK() {
			again = core.Render(t, b)
		} else {
			again = pr
		}
		if !again.Same(base[i]) {
			c.Violate("sequential-after-differs", "after the concurrent phase a template no longer renders as before it", map[string]any{"source": s, "before": base[i].Brief(), "after": again.Brief()})
		}
	}
	// ---- the checker: every operation returned the sequential value --------------------------------------
	for _, op := range ops {
		want := base[op.tpl].Brief()
		if op.kind == "Parse" {
			want = "OUT: \"parsed\""
			if !parseBase[op.tpl].OK() {
				want = parseBase[op.tpl].Brief()
			}
		}
		if op.brief != want {
			c.Violate("concurrent-differs-from-sequential|"+op.kind+"|"+c18Feature(srcs[op.tpl]), "a concurrent parse or render returned something else than when run alone",
				map[string]any{"operation": op.kind, "goroutine": op.g, "source": srcs[op.tpl], "sequential": want, "concurrent": op.brief, "call_ns": op.call, "return_ns": op.ret})
		}
	}
	// ---- interleaving coverage: overlapping pairs ---------------------------------------------------------
	sort.Slice(ops, func(i, j int) bool { return ops[i].call < ops[j].call })
	selfOverlap := map[int]bool{}
	pairs := map[[2]int]bool{}
	overlapped := 0
	for i := range ops {
		hit := false
		for j := i + 1; j < len(ops) && ops[j].call < ops[i].ret; j++ {
			if ops[j].g == ops[i].g {
				continue
			}
			hit = true
			a, bb := ops[i].tpl, ops[j].tpl
			if a == bb {
				selfOverlap[a] = true
			}
			if a > bb {
				a, bb = bb, a
			}
			if len(pairs) < 200000 {
				pairs[[2]int{a, bb}] = true
			}
		}
		if hit {
			overlapped++
		}
	}
	for p := range pairs {
		c.Distinct(fmt.Sprint(round), fmt.Sprint(p))
	}
	c.Obs("operations_that_overlapped_another", int64(overlapped))
	c.Obs("distinct_overlapping_template_pairs", int64(len(pairs)))
	c.Obs("self_overlapping_templates", int64(len(selfOverlap)))
	c.Obs("templates_not_self_overlapped_in_some_round", int64(len(srcs)-len(selfOverlap)))
	for i, name := range fixedNames {
		c.Obs("fixed_template_seen:"+name, 1)
		if selfOverlap[i] {
			c.Obs("fixed_template_self_overlapped:"+name, 1)
		}
	}
	c.Sample(map[string]any{"round": round, "templates": len(srcs), "operations": len(ops), "overlapping_pairs": len(pairs), "self_overlapping_templates": len(selfOverlap),
		"example_template": srcs[r.Intn(len(srcs))], "first_operations": func() []string {
			var out []string
			for _, op := range ops[:min(6, len(ops))] {
				out = append(out, fmt.Sprintf("g%d %s tpl%d [%d..%d]ns", op.g, op.kind, op.tpl, op.call, op.ret))
			}
			return out
		}()})
}
