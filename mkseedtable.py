#!/usr/bin/env python3
"""Regenerates the table of seeded changes in DESIGN.md (between the markers) from seeded/*/meta.json."""
import json, glob, re, os
rows = []
def key(d):
    m = re.match(r"C(\d+)-(w(\d)m|m)(\d)", os.path.basename(d))
    return (int(m.group(1)), int(m.group(3) or 1), int(m.group(4)))
for d in sorted(glob.glob("/verif/seeded/*"), key=key):
    sid = os.path.basename(d)
    meta = json.load(open(d + "/meta.json"))
    files = sorted(set(re.findall(r"^diff --git a/(\S+)", open(d + "/patch.diff").read(), re.M)))
    files = [f for f in files if not f.endswith(".rl") or f.replace(".rl", ".go") not in files]
    det = meta.get("detected_by") or []
    if meta.get("retired"):
        rows.append(f"| {sid} | {', '.join(files)} | (retired: its mechanism cannot exist on the repaired tree; caught when it was written by {', '.join(det)}) | |")
        continue
    k = ""
    for r in meta.get("ran", []):
        if r["exit"] == 1 and r["violation_keys"]:
            k = r["violation_keys"][0]; break
    rows.append(f"| {sid} | {', '.join(files)} | {', '.join(det) or '**none**'} | {k.replace('|', chr(92)+'|')} |")
table = "| seeded change | files touched | caught by (quick) | a violation key |\n|---|---|---|---|\n" + "\n".join(rows) + "\n"
s = open("/verif/DESIGN.md").read()
a, b = "<!-- seeded-table:begin -->\n", "<!-- seeded-table:end -->\n"
if a in s:
    s = s[:s.index(a) + len(a)] + table + s[s.index(b):]
else:
    # first use: replace the existing table
    m = re.search(r"\| seeded change \| files touched .*?\n(?=\n)", s, re.S)
    s = s[:m.start()] + a + table + b + s[m.end():]
open("/verif/DESIGN.md", "w").write(s)
print(len(rows), "rows;", sum(1 for r in rows if "**none**" in r), "undetected")
