package core

import (
	"bytes"

	"github.com/osteele/liquid"
	"github.com/osteele/liquid/render"
)

var decoyFilters = []string{"abs", "append", "capitalize", "ceil", "compact", "concat", "date", "default", "divided_by", "downcase", "escape", "escape_once",
	"first", "floor", "inspect", "join", "json", "last", "lstrip", "map", "minus", "modulo", "newline_to_br", "plus", "prepend", "remove", "remove_first",
	"replace", "replace_first", "reverse", "round", "rstrip", "size", "slice", "sort", "sort_natural", "split", "strip", "strip_html", "strip_newlines",
	"times", "truncate", "truncatewords", "type", "uniq", "upcase", "url_decode", "url_encode"}

var decoyCount int

// Decoy is "another engine somewhere in the process": it is configured as differently from a default engine as the API
// allows - every standard filter and tag replaced by one that yields DECOY, blocks under the names the checks register, other delimiters (two of them left
// to their defaults), strict variables, sources registered under the paths the checks include - and then used, for a
// successful and for a failing render. Engines are independent of each other, so none of this may be visible in any
// engine a check creates before or after; if it is (a table, a default or a cache shared between engines), the
// check's own oracle sees DECOY where it expected a result. Decoy itself judges nothing.
func Decoy() {
	decoyCount++
	e := liquid.NewEngine()
	for _, name := range decoyFilters {
		e.RegisterFilter(name, func(v any) any { return "DECOY" })
	}
	for _, name := range []string{"assign", "include", "break", "continue", "cycle", "z", "xecho", "xget", "xset", "xinfo"} {
		e.RegisterTag(name, func(render.Context) (string, error) { return "DECOY", nil })
	}
	// (a standard block cannot be defined again: RegisterBlock panics with "duplicate definition")
	for _, name := range []string{"xwrap", "xtwice", "xwhen", "decoyblock"} {
		e.RegisterBlock(name, func(render.Context) (string, error) { return "DECOY", nil })
	}
	e.StrictVariables()
	if decoyCount%2 == 1 {
		e.Delims("", "", "<%", "%>")
	} else {
		e.Delims("<<", ">>", "", "")
	}
	for _, path := range []string{"a.html", "self.html", "p.html", "q.html", "card.html", "c19part.html", "c19leaf.html", "part.html", "./a.html"} {
		e.ParseTemplateAndCache([]byte("DECOY"), path, 1)
	}
	src := "x {{ 1 | upcase }} <% if true %>y<% endif %> <% raw %>r<% endraw %><% comment %>c<% endcomment %> <% include 'a.html' %> {{ undefined_in_decoy }}"
	if decoyCount%2 == 0 {
		src = "x << 1 | upcase >> {% if true %}y{% endif %} {% raw %}r{% endraw %}{% comment %}c{% endcomment %} {% include 'a.html' %} << undefined_in_decoy >>"
	}
	if tpl, err := e.ParseString(src); err == nil {
		tpl.RenderString(map[string]any{"a": []any{1, 2}})
		tpl.FRender(&bytes.Buffer{}, map[string]any{"undefined_in_decoy": 1})
	}
	e.ParseAndRenderString("{{ 1 | nosuchfilter }}", nil)
	e.ParseAndRenderString("{{ 1 | divided_by: 0 }}{{", map[string]any{})
}
