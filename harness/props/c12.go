package props

import (
	"fmt"
	"sort"
	"strings"

	"github.com/osteele/liquid"
	yaml "gopkg.in/yaml.v2"
	"github.com/osteele/liquid/render"

	"verif/harness/core"
	"verif/harness/gen"
	"verif/harness/ref"
)

func init() {
	core.Register(&core.Prop{
		ID:    "C12",
		Level: "exploration",
		Rule: "PRNG programs interleaving assign, capture, for/tablerow (shadowing outer names and forloop), if/case and include, with a {% vprobe %} tag after every construct that dumps the per-render variables through render.Context.Get; each dump is compared with the environment the reference model tracks (absent == nil). Plus the capture equivalence F == {% capture v %}F{% endcapture %}{{ v }} over ALL fragments of the general generator (every tag, trim markers, failing fragments: both sides must fail). Plus targeted families (kept loop items and kept loop records: a variable given a loop item or forloop itself keeps the value of that iteration through later iterations, inner loops and the end of the loop, read field by field). Non-trivial = the program assigns or captures at least once, or contains a loop; distinct = distinct (template, bindings).",
		Exhaustive: func(string) bool { return false },
		Assumptions: []string{
			"the probe reads variables with Context.Get, the documented way for a tag to read the current lexical environment",
			"whether assignments made inside an included file are visible to the includer afterwards is not asserted (included files only probe)",
		},
		MinEvents: map[string]int64{"probes_compared": 1000},
		Run:       runC12,
	})
}

var c12Names = []string{"v1", "v2", "n", "s", "c1", "c2", "s2", "i", "x", "k", "forloop"}

func probeText(get func(string) (gen.V, bool)) string {
	var sb strings.Builder
	sb.WriteString("⟦")
	names := append([]string{}, c12Names...)
	sort.Strings(names)
	for _, n := range names {
		v, ok := get(n)
		if !ok {
			sb.WriteString(n + "=?unrepresentable;")
			continue
		}
		if n == "forloop" && v.K == gen.KMap {
			ix, _ := v.Get("index")
			ln, _ := v.Get("length")
			sb.WriteString("forloop=loop(" + gen.Canonical(ix) + "/" + gen.Canonical(ln) + ");")
			continue
		}
		if v.K == gen.KNil {
			continue // absent and nil are the same observation
		}
		if v.K == gen.KStr {
			v = gen.Str(ref.NormTable(v.S)) // captured tablerow markup: only the row/cell structure is stated
		}
		cs := gen.Canonical(v)
		if len(cs) > 48 { // captured text may itself contain probe dumps: keep dumps small
			cs = cs[:24] + "#" + fmtInt(len(cs)) + "/" + fmtInt(int(core.HashString(cs)%100000))
		}
		sb.WriteString(n + "=" + cs + ";")
	}
	sb.WriteString("⟧")
	return sb.String()
}

// addProbes inserts a probe after every node, recursively.
func addProbes(nodes []gen.Node) []gen.Node {
	var out []gen.Node
	p := gen.PlainTag{Name: "vprobe"}
	for _, n := range nodes {
		switch n := n.(type) {
		case gen.Capture:
			n.Body = addProbes(n.Body)
			out = append(out, n)
		case gen.If:
			nb := make([][]gen.Node, len(n.Bodies))
			for i, b := range n.Bodies {
				nb[i] = append([]gen.Node{p}, addProbes(b)...)
			}
			n.Bodies = nb
			if n.HasElse {
				n.Else = append([]gen.Node{p}, addProbes(n.Else)...)
			}
			out = append(out, n)
		case gen.Case:
			nb := make([][]gen.Node, len(n.Bodies))
			for i, b := range n.Bodies {
				nb[i] = append([]gen.Node{p}, addProbes(b)...)
			}
			n.Bodies = nb
			if n.HasElse {
				n.Else = append([]gen.Node{p}, addProbes(n.Else)...)
			}
			out = append(out, n)
		case gen.For:
			n.Body = append([]gen.Node{p}, addProbes(n.Body)...)
			if n.HasElse {
				n.Else = append([]gen.Node{p}, addProbes(n.Else)...)
			}
			out = append(out, n)
		case gen.Break, gen.Continue:
			out = append(out, n)
			continue
		default:
			out = append(out, n)
		}
		out = append(out, p)
	}
	return out
}

func countKinds(nodes []gen.Node) (assigns, loops int) {
	for _, n := range nodes {
		switch n := n.(type) {
		case gen.Assign:
			assigns++
		case gen.Capture:
			assigns++
			a, l := countKinds(n.Body)
			assigns, loops = assigns+a, loops+l
		case gen.For:
			loops++
			a, l := countKinds(n.Body)
			assigns, loops = assigns+a, loops+l
		case gen.If:
			for _, b := range n.Bodies {
				a, l := countKinds(b)
				assigns, loops = assigns+a, loops+l
			}
			a, l := countKinds(n.Else)
			assigns, loops = assigns+a, loops+l
		case gen.Case:
			for _, b := range n.Bodies {
				a, l := countKinds(b)
				assigns, loops = assigns+a, loops+l
			}
		}
	}
	return
}

func runC12(c *core.Ctx) {
	e := liquid.NewEngine()
	e.RegisterTag("vprobe", func(ctx render.Context) (string, error) {
		c.Obs("probes_compared", 1)
		return probeText(func(name string) (gen.V, bool) {
			if name == "forloop" {
				// the loop record is read the way a template reads it (forloop.index, forloop.length), not by looking at the Go
				// value the engine binds: whether that is a map with private entries or a Drop is the engine's business, and only
				// the documented fields are compared
				iv, err1 := ctx.EvaluateString("forloop.index")
				lv, err2 := ctx.EvaluateString("forloop.length")
				if ix, ok1 := gen.FromGo(iv); err1 == nil && err2 == nil && iv != nil && ok1 {
					if ln, ok2 := gen.FromGo(lv); ok2 {
						return gen.Map(gen.KV{K: "index", V: ix}, gen.KV{K: "length", V: ln}), true
					}
				}
			}
			x := ctx.Get(name)
			return gen.FromGo(x)
		}), nil
	})
	incSrc := map[string]string{"inc/probe.html": "[inc:{% vprobe %}{{ v1 }}]", "inc/loop.html": "{% for q in (1..2) %}{{ q }}{{ v2 }}{% endfor %}{% vprobe %}"}
	for name, src := range incSrc {
		if _, err := e.ParseTemplateAndCache([]byte(src), "vc12/"+name, 1); err != nil {
			panic(err)
		}
	}
	probe := gen.PlainTag{Name: "vprobe"}
	m := &ref.Model{
		PlainTag: func(name string, vars map[string]ref.V) (string, bool) {
			if name != "vprobe" {
				return "", false
			}
			return probeText(func(n string) (gen.V, bool) { return vars[n], true }), true
		},
		Files: map[string][]gen.Node{
			"inc/probe.html": {gen.Text{S: "[inc:"}, probe, gen.Out{E: gen.Var{Name: "v1"}}, gen.Text{S: "]"}},
			"inc/loop.html": {gen.For{Var: "q", Coll: gen.RangeE{A: intLit(1), B: intLit(2)}, Body: []gen.Node{gen.Out{E: gen.Var{Name: "q"}}, gen.Out{E: gen.Var{Name: "v2"}}}}, probe},
		},
	}
	n := c.Pick(20000, 400000)
	for i := 0; i < n; i++ {
		if !c.Mine(i) {
			continue
		}
		r := c.Rand(i)
		env := gen.StdEnv(r)
		f := gen.Features{Loops: true, Assign: true, Capture: true, Case: i%2 == 0, Cycle: i%3 == 0, Filters: true, Model: true,
			Include: []string{"inc/probe.html", "inc/loop.html"}, MaxDepth: 4, MaxNodes: 14}
		g := gen.NewG(r, f, env)
		prog := g.Program()
		if r.P(1, 4) {
			// a user-defined forloop must come back after a loop ends
			prog = append([]gen.Node{gen.Assign{Name: "forloop", E: gen.Lit{V: gen.Str("mine")}}}, prog...)
		}
		if r.P(1, 5) {
			// tablerow restores its loop variable and forloop too (kept outside captures: its markup is only stated structurally)
			prog = append(prog, gen.Assign{Name: "i", E: gen.Lit{V: gen.Str("outer-i")}},
				gen.For{Tablerow: true, Var: "i", Coll: gen.Var{Name: "sarr"}, Body: []gen.Node{gen.Out{E: gen.Var{Name: "i"}}, gen.Assign{Name: "v2", E: gen.Var{Name: "i"}}}})
		}
		if r.P(1, 3) {
			// a loop that shadows an assigned name and ends by break
			prog = append(prog, gen.Assign{Name: "x", E: gen.Lit{V: gen.Str("outer-x")}},
				gen.For{Var: "x", Coll: gen.Var{Name: "arr"}, Body: []gen.Node{gen.Out{E: gen.Var{Name: "x"}},
					gen.If{Conds: []gen.Expr{gen.Cmp{Op: "==", A: gen.Prop{X: gen.Var{Name: "forloop"}, Name: "index"}, B: intLit(r.Range(1, 3))}}, Bodies: [][]gen.Node{{gen.Break{}}}}}})
		}
		prog = addProbes(prog)
		src := gen.DefaultStyle.Source(prog)
		if !c.Begin("program:" + src + " env=" + env.String()) {
			continue
		}
		// parse with a path so that includes resolve against the cached files
		exp, status := m.Render(prog, env)
		if status == ref.Unsp {
			c.Skip("reference model: result not determined by the property statements")
			continue
		}
		res := core.RunAt(e, src, "vc12/top.html", 1, gen.CanonEnv(env))
		c.Eval(1)
		a, l := countKinds(prog)
		if a+l > 0 {
			c.Distinct("prog", src, env.String())
		}
		c.Obs("program_cases", 1)
		ok := false
		switch {
		case res.Panic != "" || res.Shape != "":
		case status == ref.Err:
			ok = res.IsErr
		default:
			ok = res.OK() && ref.NormTable(res.Out) == ref.NormTable(exp)
		}
		if !ok {
			wantS := exp
			if status == ref.Err {
				wantS = "an error"
			}
			c.Violate("scoping|"+resClass(res), "a variable probe disagrees with the environment the statement prescribes (assign/capture visibility, loop-variable restoration, include visibility)",
				map[string]any{"source": src, "bindings": env.String(), "expected": wantS, "observed": res.Brief(), "first_difference": firstDiff(exp, res.Out)})
		}
		if i%5003 == 1 {
			c.Sample(map[string]any{"source": core.Trunc(src, 400), "output": core.Trunc(res.Out, 300)})
		}
	}
	// ---- names with hyphens and question marks; captures after a capture whose body was cut short -----------
	fixed := []struct{ src, want string }{
		{"{% capture page-title %}T{{ n }}{% endcapture %}[{{ page-title }}][{{ page }}][{{ title }}]", "[T%d][][]"},
		{"{% assign page = 'p' %}{% capture page-title %}T{% endcapture %}[{{ page-title }}][{{ page }}]", "[T][p]"},
		{"{% assign a = 'A' %}{% assign b = 'B' %}{% capture a-b %}ab{% endcapture %}[{{ a }}][{{ b }}][{{ a-b }}]", "[A][B][ab]"},
		{"{% assign is-ok? = n %}{% capture done? %}yes{% endcapture %}[{{ is-ok? }}][{{ done? }}][{{ done }}]", "[%d][yes][]"},
		{"{% for i in (1..3) %}{% capture c %}a{{ i }}{% break %}z{% endcapture %}{% endfor %}{% capture d %}tail{% endcapture %}[{{ d }}]", "[tail]"},
		{"{% for i in (1..3) %}{% capture c %}a{{ i }}b{% continue %}z{% endcapture %}{% endfor %}{% capture d %}{{ n }}tail{% endcapture %}{% capture e %}E{% endcapture %}[{{ d }}][{{ e }}]", "[%dtail][E]"},
		{"{% capture outer %}o{% for i in (1..2) %}{% capture inner %}i{{ i }}{% break %}{% endcapture %}{% endfor %}p{% endcapture %}{% capture after %}A{% endcapture %}[{{ after }}]", "[A]"},
		{"{% for i in (1..2) %}{% capture x-y %}{{ i }}{% endcapture %}{% endfor %}[{{ x-y }}][{{ x }}]{% for x-y in (7..8) %}{{ x-y }}{% endfor %}[{{ x-y }}]", "[2][]78[2]"},
	}
	for k, f := range fixed {
		if !c.Mine(k) || !c.Begin("fixed:"+f.src) {
			continue
		}
		for n := 1; n <= 3; n++ {
			want := f.want
			if strings.Contains(want, "%d") {
				want = fmt.Sprintf(f.want, n)
			}
			expectOut(c, e, f.src, map[string]any{"n": n}, want, "names-and-aborted-captures", "assign/capture must bind exactly the named variable, and a capture holds exactly the text its own body rendered", nil)
			c.Obs("fixed_scoping_cases", 1)
			c.Distinct("fixed", f.src, fmt.Sprint(n))
		}
	}
	// ---- loop variables and captures over Drops: a name bound to one Drop, then to others, then restored ------------
	mm := &ref.Model{}
	for i := 0; i < c.Pick(600, 12000); i++ {
		if !c.Mine(i) {
			continue
		}
		r := c.Rand(i, 6)
		np := r.Range(2, 4)
		people := make([]gen.V, np)
		for j := range people {
			people[j] = gen.Map(gen.KV{K: "name", V: gen.Str(fmt.Sprintf("p%d", r.Intn(90)))}, gen.KV{K: "age", V: gen.Int(int64(r.Range(1, 9)))})
		}
		env := gen.Env{{K: "p", V: gen.Map(gen.KV{K: "name", V: gen.Str("outer")}, gen.KV{K: "age", V: gen.Int(0)})}, {K: "people", V: gen.Arr(people...)}, {K: "sarr", V: gen.Strs("x", "y")}}
		name := func(v string) gen.Expr { return gen.Prop{X: gen.Var{Name: v}, Name: "name"} }
		shadow := gen.For{Var: "p", Coll: gen.Var{Name: "people"}, Tablerow: i%5 == 4, Body: []gen.Node{gen.Out{E: name("p")}, gen.Text{S: ","}}}
		prog := []gen.Node{gen.Out{E: name("p")}, gen.Text{S: ";"}, shadow, gen.Text{S: ";"}, gen.Out{E: name("p")}, gen.Text{S: "|"},
			gen.For{Var: "q", Coll: gen.Var{Name: "people"}, Body: []gen.Node{gen.Capture{Name: "c", Body: []gen.Node{gen.Out{E: name("q")}}}, gen.Out{E: gen.Var{Name: "c"}}, gen.Text{S: "."},
				gen.For{Var: "q", Coll: gen.Var{Name: "sarr"}, Body: []gen.Node{gen.Out{E: gen.Var{Name: "q"}}}}, gen.Out{E: gen.Prop{X: gen.Var{Name: "q"}, Name: "age"}}, gen.Text{S: ","}}},
			gen.Text{S: "|"}, gen.Assign{Name: "p", E: gen.Index{X: gen.Var{Name: "people"}, I: intLit(1)}}, gen.Out{E: name("p")},
			gen.For{Var: "p", Coll: gen.Var{Name: "people"}, Body: []gen.Node{gen.If{Conds: []gen.Expr{gen.Cmp{Op: "==", A: gen.Prop{X: gen.Var{Name: "forloop"}, Name: "index"}, B: intLit(2)}}, Bodies: [][]gen.Node{{gen.Break{}}}}, gen.Out{E: name("p")}}},
			gen.Out{E: name("p")}}
		src := gen.DefaultStyle.Source(prog)
		bind := gen.RealiseEnv(env, r, gen.Rep{Drops: true, Pointers: i%2 == 0})
		if !c.Begin("drop-rebinding:" + src + " bindings=" + gen.DescribeEnv(bind)) {
			continue
		}
		if modelCompare(c, e, mm, prog, env, bind, gen.DefaultStyle, "drop-rebinding", "a loop variable, capture or assign over Drops: the name must have the current item in each iteration and its earlier value after the loop") {
			c.Obs("drop_rebinding_cases", 1)
			c.Distinct("droprebind", src, gen.DescribeEnv(bind))
		}
	}
	// ---- after a loop its variable and forloop are what they were before: undefined again, which strict mode shows --------------
	if c.Shard == 15%c.NShards && c.Begin("strict mode after loops; one empty bindings map used twice") {
		se := liquid.NewEngine()
		se.StrictVariables()
		for _, cs := range []struct {
			src     string
			b       map[string]any
			want    string
			failing bool
		}{
			{"{% for i in (1..2) %}{{ i }}{% endfor %}[{{ i }}]", nil, "", true}, {"{% for i in (1..2) %}{{ i }}{% endfor %}[{{ forloop }}]", nil, "", true},
			{"{% for i in (1..2) %}{{ i }}{% endfor %}[{{ i }}]", map[string]any{"i": "outer"}, "12[outer]", false}, {"{% tablerow i in (1..2) %}{% endtablerow %}{{ i }}", nil, "", true},
			{"{% for i in (1..3) %}{% if i == 2 %}{% break %}{% endif %}{% endfor %}{{ i }}", nil, "", true}, {"{% capture c %}{% for i in (1..2) %}{{ i }}{% endfor %}{% endcapture %}{{ c }}{{ i }}", nil, "", true},
			{"{% for i in (1..2) %}{% for j in (1..2) %}{% endfor %}{{ j }}{% endfor %}", nil, "", true}, {"{% assign i = 5 %}{% for i in (1..2) %}{% endfor %}{{ i }}", nil, "5", false},
			{"{% for i in (1..2) %}{{ i }}{% endfor %}", nil, "12", false},
		} {
			res := core.Run(se, cs.src, cs.b)
			c.Eval(1)
			c.Obs("strict_after_loop_cases", 1)
			c.Distinct("strictloop", cs.src, fmt.Sprint(cs.b))
			if cs.failing && !res.Failed() || !cs.failing && (!res.OK() || res.Out != cs.want) {
				c.Violate("loop-restore|strict|"+resClass(res), "when a loop ends its variable and forloop have the values they had before: a name that was undefined is undefined again (an error in strict-variables mode)",
					map[string]any{"source": cs.src, "bindings": fmt.Sprint(cs.b), "expected": map[bool]string{true: "an undefined-variable error", false: cs.want}[cs.failing], "observed": res.Brief()})
			}
		}
		// one empty, non-nil bindings map handed to two renders: nothing of the first may be visible in the second
		shared := map[string]any{}
		first := core.Run(e, "{% assign a = 1 %}{% capture cc %}x{% endcapture %}{% for i in (1..2) %}{{ i }}{% endfor %}{{ a }}{{ cc }}", shared)
		second := core.Run(e, "[{{ a }}{{ cc }}{{ i }}{{ forloop }}]", shared)
		c.Eval(2)
		c.Obs("strict_after_loop_cases", 1)
		if !first.OK() || first.Out != "121x" || !second.OK() || second.Out != "[]" || len(shared) != 0 {
			c.Violate("assign-leaks-into-empty-bindings", "variables set by assign, capture and loops live for one render: a second render given the same (empty) bindings map must not see them, and the map stays empty",
				map[string]any{"first": first.Brief(), "second": second.Brief(), "keys_in_the_callers_map": len(shared)})
		}
	}
	// ---- assign evaluates its right-hand side every time it runs: per iteration, and per render of one parsed template ----------
	if c.Shard == 13%c.NShards && c.Begin("assign re-evaluates") {
		for _, cs := range []struct {
			src  string
			want func(n int) string
		}{
			{"{% for i in (1..3) %}{% assign v = 10 | plus: i %}{{ v }},{% endfor %}", func(int) string { return "11,12,13," }},
			{"{% for i in (1..3) %}{% assign v = \"x\" | append: i | append: n %}{{ v }};{% endfor %}", func(n int) string { return fmt.Sprintf("x1%d;x2%d;x3%d;", n, n, n) }},
			{"{% assign v = 1 | plus: n %}{{ v }}|{% assign w = 'n=' | append: n %}{{ w }}|{% assign t = true and n %}{{ t }}", func(n int) string { return fmt.Sprintf("%d|n=%d|true", n+1, n) }},
			{"{% for i in (1..2) %}{% assign v = nil | default: i %}{{ v }}{% assign u = -1 | times: i %}{{ u }} {% endfor %}{% assign z = 2.5 | plus: n %}{{ z }}", func(n int) string { return fmt.Sprintf("1-1 2-2 %v", float64(n)+2.5) }},
			{"{% capture c %}{{ n }}{% endcapture %}{% assign v = 'c' | append: c %}{{ v }}{% assign k = 0 | plus: arr[0] %}{{ k }}", func(n int) string { return fmt.Sprintf("c%d%d", n, n*2) }},
		} {
			tpl, pr := core.ParsePlain(e, cs.src)
			if !pr.OK() {
				c.Violate("assign-reevaluates|parse", "template does not parse", map[string]any{"source": cs.src, "observed": pr.Brief()})
				continue
			}
			for n := 1; n <= 3; n++ {
				res := core.Render(tpl, map[string]any{"n": n, "arr": []any{n * 2}})
				c.Eval(1)
				c.Obs("assign_reevaluation_cases", 1)
				c.Distinct("assignre", cs.src, fmt.Sprint(n))
				if want := cs.want(n); !res.OK() || res.Out != want {
					c.Violate("assign-reevaluates|"+resClass(res), "assign binds the value its right-hand side has when the tag runs: in every loop iteration and in every render of the same parsed template",
						map[string]any{"source": cs.src, "n": n, "render_number_of_this_template": n, "expected": want, "observed": res.Brief()})
				}
			}
		}
	}
	// ---- a loop item kept with assign is that item for good, whatever the collection is made of ---------------------------
	if c.Shard == 8%c.NShards && c.Begin("kept loop items") {
		src := "{% for p in coll %}{% if forloop.first %}{% assign kept = p %}{% endif %}{% assign prev = cur %}{% assign cur = p %}{% if prev %}{{ prev[0] }}<{{ cur[0] }};{% endif %}{% endfor %}|{{ kept[0] }}={{ kept[1] }}|{{ cur[0] }}={{ cur[1] }}"
		want := "a<b;b<c;|a=1|c=3"
		colls := map[string]any{"ordered map": yaml.MapSlice{{Key: "a", Value: 1}, {Key: "b", Value: 2}, {Key: "c", Value: 3}}, "map": map[string]any{"a": 1, "b": 2, "c": 3}, "typed map": map[string]int{"a": 1, "b": 2, "c": 3},
			"array of pairs": []any{[]any{"a", 1}, []any{"b", 2}, []any{"c", 3}}, "typed pairs": [][]any{{"a", 1}, {"b", 2}, {"c", 3}}, "drop of ordered map": gen.DropV{X: yaml.MapSlice{{Key: "a", Value: 1}, {Key: "b", Value: 2}, {Key: "c", Value: 3}}},
			"fixed arrays": [3][2]any{{"a", 1}, {"b", 2}, {"c", 3}}}
		for name, coll := range colls {
			expectOut(c, e, src, map[string]any{"coll": coll}, want, "kept-loop-item", "a loop item bound with assign holds exactly that item for the rest of the render (later iterations must not change it)", map[string]any{"collection": name})
			c.Obs("kept_loop_item_cases", 1)
			c.Distinct("kept", name)
		}
	}
	// ---- the loop record kept with assign is the record of that iteration for good: later iterations, inner loops and the end of
	// the loop move forloop on, not the variable that was given its value (read field by field through the expression language)
	if c.Shard == 9%c.NShards && c.Begin("kept loop records") {
		rec := "{% if f %}[{{ f.index }},{{ f.index0 }},{{ f.rindex }},{{ f.rindex0 }},{{ f.first }},{{ f.last }},{{ f.length }}]{% endif %}"
		for n := 1; n <= 5; n++ {
			items := make([]any, n)
			for i := range items {
				items[i] = "v" + itoa(i)
			}
			for k := 1; k <= n; k++ {
				want1 := "[" + itoa(k) + "," + itoa(k-1) + "," + itoa(n-k+1) + "," + itoa(n-k) + "," + map[bool]string{true: "true", false: "false"}[k == 1] + "," + map[bool]string{true: "true", false: "false"}[k == n] + "," + itoa(n) + "]"
				keep := "{% if forloop.index == " + itoa(k) + " %}{% assign f = forloop %}{% endif %}"
				flat := "{% for x in a %}" + keep + rec + "{% endfor %}|" + rec
				expectOut(c, e, flat, map[string]any{"a": items}, strings.Repeat(want1, n-k+1)+"|"+want1, "kept-loop-record", "a variable given forloop with assign holds exactly the record of that iteration for the rest of the render", map[string]any{"length": n, "assigned_in_iteration": k})
				nested := "{% for x in a %}" + keep + "{% for y in a limit: 2 %}" + rec + "{% endfor %}{% endfor %}|{% for z in a reversed %}" + rec + "{% endfor %}"
				inner := n
				if inner > 2 {
					inner = 2
				}
				expectOut(c, e, nested, map[string]any{"a": items}, strings.Repeat(want1, (n-k+1)*inner)+"|"+strings.Repeat(want1, n), "kept-loop-record|inner-loops", "a variable given forloop with assign holds exactly the record of that iteration, also inside and after other loops", map[string]any{"length": n, "assigned_in_iteration": k})
				c.Obs("kept_loop_record_cases", 2)
				c.Distinct("keptrec", itoa(n), itoa(k))
			}
		}
	}
	// ---- a variable may be called what it likes: words that mean something elsewhere in Liquid (filter names, loop
	// fields, tag names, Shopify's empty/blank/tablerowloop) are ordinary names in this engine's expression language,
	// whose reserved words are only true, false, nil, and, or, contains and in
	words := []string{"empty", "blank", "tablerowloop", "first", "last", "size", "index", "length", "range", "cycle", "continue", "else", "endfor", "when", "comment", "raw", "include", "assign", "capture",
		"with", "tablerow", "present", "null", "True", "NIL", "not", "default", "_u", "a1", "forloop2", "parentloop", "rindex", "col", "row", "limit", "offset", "cols", "reversed", "item", "e"}
	for k, w := range words {
		if !c.Mine(k) || !c.Begin("word-names:"+w) {
			continue
		}
		what := "a variable set by assign, capture or a loop is visible afterwards under its name and holds exactly what it was given - whatever ordinary word the name is"
		src := strings.ReplaceAll("{% assign NAME = 'A' %}[{{ NAME }}]{% for i in (1..2) %}{{ NAME }}{% endfor %}{% tablerow i in (1..2) %}{{ NAME }}{% endtablerow %}[{{ NAME }}]{% if NAME == 'A' %}eq{% endif %}"+
			"{% capture NAME %}C{{ NAME }}{% endcapture %}[{{ NAME }}]{{ NAME | append: '!' }}{% assign other = NAME %}{{ other }}{% if NAME %}T{% endif %}{{ NAME.size }}", "NAME", w)
		res := core.Run(e, src, map[string]any{})
		c.Eval(1)
		if want := "[A]AA<tr><td>A</td><td>A</td></tr>[A]eq[CA]CA!CAT"; !res.OK() || !strings.HasPrefix(ref.NormTable(res.Out), want) {
			c.Violate("word-names|assign-capture|"+resClass(res), what, map[string]any{"name": w, "source": src, "expected_prefix": want, "observed": res.Brief()})
		}
		// as a loop variable (not the words that are loop modifiers, which would be read as such in a loop header), over a caller's binding of that name
		if w != "limit" && w != "offset" && w != "cols" && w != "reversed" {
			src = strings.ReplaceAll("[{{ NAME }}]{% for NAME in (1..2) %}{{ NAME }}{% endfor %}[{{ NAME }}]{% tablerow NAME in (3..3) %}{{ NAME }}{% endtablerow %}[{{ NAME }}]{% for q in (1..1) %}{% assign NAME = 'in-loop' %}{% endfor %}[{{ NAME }}]", "NAME", w)
			res = core.Run(e, src, map[string]any{w: "B"})
			c.Eval(1)
			if want := "[B]12[B]<tr><td>3</td></tr>[B][in-loop]"; !res.OK() || ref.NormTable(res.Out) != want {
				c.Violate("word-names|loop-variable|"+resClass(res), what, map[string]any{"name": w, "source": src, "bindings": w + "=B", "expected": want, "observed": res.Brief()})
			}
		}
		c.Obs("word_name_cases", 1)
		c.Distinct("word-names", w)
	}
	// ---- capture equivalence over the general generator ---------------------------------
	e2 := liquid.NewEngine()
	n2 := c.Pick(30000, 600000)
	for i := 0; i < n2; i++ {
		if !c.Mine(i) {
			continue
		}
		r := c.Rand(i, 5)
		env := gen.StdEnv(r)
		f := gen.FullFeatures()
		f.Errors = true
		f.WSText = i%2 == 0
		g := gen.NewG(r, f, env)
		st := gen.DefaultStyle
		F := st.Source(g.Program())
		wrapped := "{% capture vcap_fresh %}" + F + "{% endcapture %}{{ vcap_fresh }}"
		if !c.Begin("capture-equivalence:" + F + " env=" + env.String()) {
			continue
		}
		b := gen.CanonEnv(env)
		r1 := core.Run(e2, F, b)
		r2 := core.Run(e2, wrapped, b)
		c.Eval(2)
		c.Obs("capture_equivalence_cases", 1)
		c.Distinct("cap", F, env.String())
		same := r1.OK() && r2.OK() && r1.Out == r2.Out || r1.Failed() && r2.Failed()
		if !same {
			c.Violate("capture-equivalence|"+resClass(r2), "wrapping a fragment in capture and printing the captured variable does not render the same as the fragment",
				map[string]any{"fragment": F, "bindings": env.String(), "plain": r1.Brief(), "captured": r2.Brief()})
		}
	}
}

func firstDiff(a, b string) string {
	i := 0
	for i < len(a) && i < len(b) && a[i] == b[i] {
		i++
	}
	lo := i - 40
	if lo < 0 {
		lo = 0
	}
	return "at byte " + itoa(i) + ": expected …" + core.Trunc(a[lo:], 120) + " / observed …" + core.Trunc(b[min(lo, len(b)):], 120)
}

func itoa(i int) string { return strings.TrimSpace(strings.Join([]string{"", func() string { return fmtInt(i) }()}, "")) }

func fmtInt(i int) string {
	if i == 0 {
		return "0"
	}
	neg := i < 0
	if neg {
		i = -i
	}
	var b []byte
	for i > 0 {
		b = append([]byte{byte('0' + i%10)}, b...)
		i /= 10
	}
	if neg {
		b = append([]byte{'-'}, b...)
	}
	return string(b)
}
