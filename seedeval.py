#!/usr/bin/env python3
"""seedeval.py <dir with patch.diff + demo_test.go> <seed-id> [ID ...]
Confirms a seeded change (compiles, suite passes, demo fails with / passes without), runs the named
property checks (default: the property the seed targets, taken from seed-id prefix) against /repo with the
patch applied, undoes the patch, and stores everything under /verif/seeded/<seed-id>/."""
import sys, os, subprocess, json, shutil, re, time
ENV = dict(os.environ, GOFLAGS="-mod=mod", GOPROXY="off", GOSUMDB="off", GOTOOLCHAIN="local")
def sh(cmd, cwd="/repo", timeout=3000):
    p = subprocess.run(cmd, shell=True, cwd=cwd, env=ENV, capture_output=True, text=True, errors="replace", timeout=timeout)
    return p.returncode, (p.stdout + p.stderr)
def main():
    src, sid = os.path.abspath(sys.argv[1]), sys.argv[2]
    checks = sys.argv[3:] or [sid.split("-")[0]]
    tier = os.environ.get("SEED_TIER", "quick")
    patch = os.path.join(src, "patch.diff")
    demo = os.path.join(src, "demo_test.go")
    first = open(demo).readline()
    m = re.search(r"place at:\s*(\S+)", first)
    place = m.group(1) if m else "seed_demo_test.go"
    if not place.endswith("_test.go"): place = os.path.join(place, "seed_demo_test.go")
    meta = {"seed": sid, "property": sid.split("-")[0], "demo_placed_at": place, "ran": []}
    rc, out = sh("git status --porcelain")
    assert out.strip() == "", "repo not clean: " + out
    # runs against a changed tree must not leave their evidence behind: the committed evidence describes /repo itself
    evbak = "/verif/.build/evidence.keep"
    shutil.rmtree(evbak, ignore_errors=True)
    shutil.copytree("/verif/evidence", evbak)
    def cleanup():
        sh("git reset -q --hard && git clean -fdq")
        if os.path.isdir(evbak):
            shutil.rmtree("/verif/evidence", ignore_errors=True)
            shutil.copytree(evbak, "/verif/evidence")
    fast = os.environ.get("SEED_FAST") == "1" and os.path.exists(f"/verif/seeded/{sid}/meta.json")
    try:
        if fast:
            # regression mode: the change was confirmed before; only re-run the checks against it
            prev = json.load(open(f"/verif/seeded/{sid}/meta.json"))
            for k in ("demo_passes_without_change", "suite_passes_with_change", "demo_fails_with_change", "demo_output_with_change"):
                meta[k] = prev.get(k)
            rc, out = sh(f"git apply {patch}")
            if rc != 0:
                # the tree has moved since the change was written (repairs): merge it against the blobs it was made from
                sh("git reset -q --hard")
                rc, out = sh(f"git apply --3way {patch}")
                meta["applied_by_3way_merge"] = rc == 0
            assert rc == 0, "patch does not apply: " + out
            rc, out = sh("go build ./...")
            assert rc == 0, "patched tree does not build: " + out[-600:]
            for cid in checks:
                t0 = time.time()
                rc, out = sh(f"./run.sh {cid} {tier}", cwd="/verif")
                keys = re.findall(r"^\s+key=(\S+)", out, re.M)
                meta["ran"].append({"check": cid, "tier": tier, "exit": rc, "violation_keys": keys[:12], "wall_s": round(time.time()-t0,1),
                                    "violation_lines": len(re.findall(r"^VIOLATION ", out, re.M))})
                print(f"{sid}: check {cid} {tier} -> exit {rc}, keys {keys[:4]}")
            raise StopIteration
        # demo on the unchanged tree
        os.makedirs(os.path.dirname(os.path.join("/repo", place)) or "/repo", exist_ok=True)
        shutil.copy(demo, os.path.join("/repo", place))
        pkg = "./" + (os.path.dirname(place) or ".")
        rc, out = sh(f"go test -vet=off -count=1 {pkg} 2>&1 | tail -5")
        rc0, _ = sh(f"go test -vet=off -count=1 {pkg}")
        meta["demo_passes_without_change"] = rc0 == 0
        cleanup()
        rc, out = sh(f"git apply {patch}")
        assert rc == 0, "patch does not apply: " + out
        rc, out = sh("go build ./... && go test -vet=off -count=1 ./...")
        meta["suite_passes_with_change"] = rc == 0
        if rc != 0: meta["suite_output"] = out[-1500:]
        shutil.copy(demo, os.path.join("/repo", place))
        rc, out = sh(f"go test -vet=off -count=1 {pkg}")
        meta["demo_fails_with_change"] = rc != 0
        meta["demo_output_with_change"] = out[-1200:]
        os.remove(os.path.join("/repo", place))
        for cid in checks:
            t0 = time.time()
            rc, out = sh(f"./run.sh {cid} {tier}", cwd="/verif")
            keys = re.findall(r"^\s+key=(\S+)", out, re.M)
            meta["ran"].append({"check": cid, "tier": tier, "exit": rc, "violation_keys": keys[:12], "wall_s": round(time.time()-t0,1),
                                "violation_lines": len(re.findall(r"^VIOLATION ", out, re.M))})
            print(f"{sid}: check {cid} {tier} -> exit {rc}, keys {keys[:4]}")
    except StopIteration:
        pass
    finally:
        cleanup()
    meta["detected_by"] = [r["check"] for r in meta["ran"] if r["exit"] == 1]
    dst = f"/verif/seeded/{sid}"
    os.makedirs(dst, exist_ok=True)
    if os.path.abspath(dst) != src:
        shutil.copy(patch, dst + "/patch.diff")
        shutil.copy(demo, dst + "/demo_test.go")
    if os.path.exists(os.path.join(src, "README.md")):
        meta["needs_to_manifest"] = open(os.path.join(src, "README.md")).read()[:1800]
    old = {}
    if os.path.exists(dst + "/meta.json"):
        old = json.load(open(dst + "/meta.json"))
        if "needs_to_manifest" not in meta and "needs_to_manifest" in old:
            meta["needs_to_manifest"] = old["needs_to_manifest"]
        prev = {r["check"] + "/" + r["tier"]: r for r in old.get("ran", [])}
        for r in meta["ran"]: prev[r["check"] + "/" + r["tier"]] = r
        meta["ran"] = list(prev.values())
        meta["detected_by"] = sorted({r["check"] for r in meta["ran"] if r["exit"] == 1})
    json.dump(meta, open(dst + "/meta.json", "w"), indent=1)
    ok = meta["demo_passes_without_change"] and meta["suite_passes_with_change"] and meta["demo_fails_with_change"]
    print(f"{sid}: confirmed={ok} detected_by={meta['detected_by']}")
main()
