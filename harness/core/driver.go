package core

import (
	"bufio"
	"encoding/binary"
	"encoding/json"
	"fmt"
	"os"
	"os/exec"
	"path/filepath"
	"regexp"
	"strconv"
	"strings"
	"sync"
	"time"
)

// Exit codes.
const (
	ExitHeld         = 0
	ExitViolation    = 1
	ExitInconclusive = 2
)

func envInt(name string, def int64) int64 {
	if s := os.Getenv(name); s != "" {
		if n, err := strconv.ParseInt(s, 10, 64); err == nil {
			return n
		}
	}
	return def
}

func root() string {
	if r := os.Getenv("VERIF_ROOT"); r != "" {
		return r
	}
	return "/verif"
}

// Main is the entry point of vcheck.
func Main() {
	args := os.Args[1:]
	if len(args) >= 1 && args[0] == "--worker" {
		os.Exit(workerMain(args[1:]))
	}
	if len(args) < 2 {
		fmt.Fprintln(os.Stderr, "usage: vcheck <ID> <quick|thorough> | vcheck <ID> --replay <file>")
		os.Exit(ExitInconclusive)
	}
	p := Props[args[0]]
	if p == nil {
		fmt.Fprintf(os.Stderr, "unknown property %q\n", args[0])
		os.Exit(ExitInconclusive)
	}
	if args[1] == "--replay" {
		if len(args) < 3 {
			fmt.Fprintln(os.Stderr, "missing replay file")
			os.Exit(ExitInconclusive)
		}
		os.Exit(replay(p, args[2]))
	}
	tier := args[1]
	if tier != "quick" && tier != "thorough" {
		fmt.Fprintf(os.Stderr, "unknown tier %q\n", tier)
		os.Exit(ExitInconclusive)
	}
	seed := uint64(envInt("VERIF_SEED", 1))
	os.Exit(drive(p, tier, seed))
}

func workerMain(a []string) int {
	// <ID> <tier> <seed> <shard> <nshards> <dir> <only> <skip,skip,...>
	if len(a) < 8 {
		fmt.Fprintln(os.Stderr, "bad worker args")
		return 2
	}
	p := Props[a[0]]
	if p == nil {
		return 2
	}
	seed, _ := strconv.ParseUint(a[2], 10, 64)
	shard, _ := strconv.Atoi(a[3])
	nshards, _ := strconv.Atoi(a[4])
	only, _ := strconv.ParseInt(a[6], 10, 64)
	skip := map[int64]bool{}
	for _, s := range strings.Split(a[7], ",") {
		if n, err := strconv.ParseInt(s, 10, 64); err == nil && n > 0 {
			skip[n] = true
		}
	}
	return RunWorker(p, a[1], seed, shard, nshards, a[5], skip, only)
}

type shardRun struct {
	shard    int
	skip     []int64
	exit     int
	crashed  bool
	timedOut bool
}

func runShard(p *Prop, tier string, seed uint64, shard, nshards int, dir string, only int64, skip []int64, wall time.Duration) shardRun {
	base := shardBase(dir, shard)
	os.Remove(base + ".json")
	os.Remove(base + ".cur")
	ss := make([]string, len(skip))
	for i, n := range skip {
		ss[i] = strconv.FormatInt(n, 10)
	}
	cmd := exec.Command(os.Args[0], "--worker", p.ID, tier, strconv.FormatUint(seed, 10), strconv.Itoa(shard), strconv.Itoa(nshards), dir,
		strconv.FormatInt(only, 10), strings.Join(ss, ",")+",")
	errf, _ := os.OpenFile(base+".stderr", os.O_CREATE|os.O_WRONLY|os.O_APPEND, 0o644)
	defer errf.Close()
	cmd.Stdout = errf
	cmd.Stderr = errf
	cmd.Dir = dir
	env := []string{"TZ=UTC", "LANG=C", "HOME=" + os.Getenv("HOME"), "PATH=" + os.Getenv("PATH"), "VERIF_ROOT=" + root(),
		"GOTRACEBACK=all", "VCHECK_LIQUID_BIN=" + os.Getenv("VCHECK_LIQUID_BIN")}
	if p.Race {
		env = append(env, "GORACE=halt_on_error=0 exitcode=0 log_path="+filepath.Join(dir, fmt.Sprintf("race-%02d", shard)))
	}
	cmd.Env = env
	if err := cmd.Start(); err != nil {
		fmt.Fprintln(os.Stderr, "start worker:", err)
		return shardRun{shard: shard, skip: skip, exit: 2, crashed: true}
	}
	done := make(chan error, 1)
	go func() { done <- cmd.Wait() }()
	res := shardRun{shard: shard, skip: skip}
	select {
	case err := <-done:
		if err != nil {
			res.crashed = true
			if ee, ok := err.(*exec.ExitError); ok {
				res.exit = ee.ExitCode()
			} else {
				res.exit = 2
			}
		}
	case <-time.After(wall):
		cmd.Process.Signal(os.Signal(syscallSIGQUIT))
		select {
		case <-done:
		case <-time.After(10 * time.Second):
			cmd.Process.Kill()
			<-done
		}
		res.timedOut = true
	}
	if _, err := os.Stat(base + ".json"); err != nil && !res.crashed && !res.timedOut {
		res.crashed = true
		res.exit = 2
	}
	return res
}

var (
	reFatal = regexp.MustCompile(`(?m)^(fatal error: .*|panic: .*|runtime: goroutine stack exceeds.*|SIGSEGV.*|signal: .*)$`)
	reFrame = regexp.MustCompile(`(?m)^github\.com/osteele/liquid(/[\w/]+)?\.([\w.()*]+)`)
)

var reFrameArgs = regexp.MustCompile(`\((0x[0-9a-f]+|\.\.\.).*$`)

func classifyCrash(stderrPath string, exit int) (class, site string) {
	defer func() { site = reFrameArgs.ReplaceAllString(site, "") }() // argument words are addresses: no part of a stable key
	b, _ := os.ReadFile(stderrPath)
	s := string(b)
	if exit == 3 {
		return fmt.Sprintf("does not terminate within %d CPU-seconds", HangCPUSeconds), "hang"
	}
	if exit == 4 {
		site = "blocked"
		if ms := reFrame.FindAllStringSubmatch(s, -1); len(ms) > 0 {
			site = "blocked" + ms[0][1] + "." + ms[0][2]
		}
		return "blocked: neither ends nor uses the processor (a lock never released, a wait nothing ends)", site
	}
	class = fmt.Sprintf("worker died (exit %d)", exit)
	if m := reFatal.FindString(s); m != "" {
		class = Trunc(m, 120)
	}
	site = "?"
	if m := reFrame.FindStringSubmatch(s); m != nil {
		site = m[1] + "." + m[2]
	}
	return
}

func drive(p *Prop, tier string, seed uint64) int {
	start := time.Now()
	nshards := p.Shards
	if nshards <= 0 {
		nshards = 16
	}
	dir := filepath.Join(root(), ".work", fmt.Sprintf("%s-%s-%d", p.ID, tier, os.Getpid()))
	os.RemoveAll(dir)
	if err := os.MkdirAll(dir, 0o755); err != nil {
		fmt.Fprintln(os.Stderr, err)
		return ExitInconclusive
	}
	defer os.RemoveAll(dir)
	wall := 25 * time.Minute
	if tier == "thorough" {
		wall = 4 * time.Hour
	}
	var inconclusive []string
	extra := map[string]*Violation{}
	var mu sync.Mutex
	var wg sync.WaitGroup
	for s := 0; s < nshards; s++ {
		wg.Add(1)
		go func(s int) {
			defer wg.Done()
			var skip []int64
			for attempt := 0; ; attempt++ {
				r := runShard(p, tier, seed, s, nshards, dir, 0, skip, wall)
				if r.timedOut {
					mu.Lock()
					inconclusive = append(inconclusive, fmt.Sprintf("shard %d hit the wall-clock watchdog (%v); machine load, not a verdict", s, wall))
					mu.Unlock()
					return
				}
				if !r.crashed {
					return
				}
				no, desc := readCur(shardBase(dir, s) + ".cur")
				class, site := classifyCrash(shardBase(dir, s)+".stderr", r.exit)
				if no == 0 {
					tail, _ := os.ReadFile(shardBase(dir, s) + ".stderr")
					mu.Lock()
					inconclusive = append(inconclusive, fmt.Sprintf("shard %d died before its first case: %s: %s", s, class, Trunc(string(tail), 600)))
					mu.Unlock()
					return
				}
				// A worker that was killed from outside (exit -1, nothing fatal on its stderr) may be the kernel's out-of-memory
				// killer at work for another process, or an operator: the case is run once more on its own. If it ends, the kill
				// had nothing to do with it: the shard is run again in full and a note says so; if it dies again, it is the case.
				if r.exit == -1 && class == "worker died (exit -1)" && attempt < 3 {
					solo := runShard(p, tier, seed, s, nshards, dir, no, nil, wall)
					if !solo.crashed && !solo.timedOut {
						mu.Lock()
						driveNotes = append(driveNotes, fmt.Sprintf("shard %d was killed from outside while on case %d, which ends normally on its own; shard re-run", s, no))
						mu.Unlock()
						continue
					}
				}
				key := "fatal|" + strings.ReplaceAll(class, " ", "_") + "|" + site
				mu.Lock()
				if v := extra[key]; v != nil {
					v.Count++
				} else {
					extra[key] = &Violation{Key: key, What: "the process died or hung while executing this case: " + class, Count: 1, Shard: s, CaseNo: no,
						Witness: map[string]any{"case": desc, "crash": class, "site": site}}
				}
				mu.Unlock()
				skip = append(skip, no)
				if r.exit == 4 && attempt >= 1 {
					// every blocked case costs the full observation period; two of them are proof enough, the rest of this
					// shard is not explored in this run (which is a violation already)
					return
				}
				if attempt >= 25 {
					mu.Lock()
					inconclusive = append(inconclusive, fmt.Sprintf("shard %d died more than 25 times", s))
					mu.Unlock()
					return
				}
			}
		}(s)
	}
	wg.Wait()

	m := mergeShards(dir, nshards, &inconclusive)
	for k, v := range extra {
		m.Viol[k] = v
	}
	if p.Race {
		collectRaces(dir, m)
	}
	if p.Post != nil {
		inconclusive = append(inconclusive, p.Post(m)...)
	}
	for name, min := range p.MinEvents {
		if m.Obs[name] < min {
			inconclusive = append(inconclusive, fmt.Sprintf("monitor observed too few events: %s = %d, need >= %d", name, m.Obs[name], min))
		}
	}
	if m.Evals == 0 {
		inconclusive = append(inconclusive, "no executions were judged")
	}
	return conclude(p, tier, seed, nshards, m, inconclusive, time.Since(start).Seconds(), true)
}

func mergeShards(dir string, nshards int, inconclusive *[]string) *Merged {
	m := &Merged{Viol: map[string]*Violation{}, Obs: map[string]int64{}}
	distinct := map[uint64]struct{}{}
	for s := 0; s < nshards; s++ {
		base := shardBase(dir, s)
		js, err := os.ReadFile(base + ".json")
		if err != nil {
			if inconclusive != nil {
				*inconclusive = append(*inconclusive, fmt.Sprintf("shard %d left no report", s))
			}
			continue
		}
		var r report
		if err := json.Unmarshal(js, &r); err != nil {
			if inconclusive != nil {
				*inconclusive = append(*inconclusive, fmt.Sprintf("shard %d report unreadable: %v", s, err))
			}
			continue
		}
		m.Evals += r.Evals
		m.Skipped += r.Skipped
		for k, v := range r.Obs {
			if strings.HasPrefix(k, "max:") {
				if v > m.Obs[k] {
					m.Obs[k] = v
				}
			} else {
				m.Obs[k] += v
			}
		}
		for k, v := range r.Viol {
			if o := m.Viol[k]; o != nil {
				o.Count += v.Count
			} else {
				m.Viol[k] = v
			}
		}
		if len(m.Samples) < 8 {
			for _, x := range r.Samples {
				if len(m.Samples) < 8 && (s < 4 || len(m.Samples) < 4) {
					m.Samples = append(m.Samples, x)
					break
				}
			}
			if s == 0 && len(r.Samples) > 1 {
				m.Samples = append(m.Samples, r.Samples[1:]...)
			}
		}
		hs, _ := os.ReadFile(base + ".hashes")
		for i := 0; i+8 <= len(hs); i += 8 {
			distinct[binary.LittleEndian.Uint64(hs[i:])] = struct{}{}
		}
	}
	m.Distinct = len(distinct)
	return m
}

var reRaceFrame = regexp.MustCompile(`^\s+github\.com/osteele/liquid(/[\w/]+)?\.([\w.()*]+)\(\)`)

// collectRaces turns race-detector report blocks into violations, keyed by
// the pair of innermost repository frames of the two conflicting accesses.
func collectRaces(dir string, m *Merged) {
	files, _ := filepath.Glob(filepath.Join(dir, "race-*"))
	for _, f := range files {
		fh, err := os.Open(f)
		if err != nil {
			continue
		}
		sc := bufio.NewScanner(fh)
		sc.Buffer(make([]byte, 1<<20), 1<<20)
		var block []string
		flush := func() {
			if len(block) == 0 {
				return
			}
			m.Obs["race_report_blocks"]++
			// innermost repo frame of each of the first two stacks
			var sites []string
			inStack, got := false, false
			for _, l := range block {
				if strings.HasSuffix(strings.TrimSpace(l), ":") && !strings.HasPrefix(l, "   ") {
					inStack, got = true, false
					continue
				}
				if strings.TrimSpace(l) == "" {
					inStack = false
					continue
				}
				if inStack && !got {
					if mm := reRaceFrame.FindStringSubmatch(l); mm != nil {
						sites = append(sites, mm[1]+"."+mm[2])
						got = true
					}
				}
			}
			if len(sites) > 2 {
				sites = sites[:2]
			}
			key := "race|" + strings.Join(sites, "|")
			if len(sites) == 0 {
				key = "race|no-repository-frame"
			}
			if v := m.Viol[key]; v != nil {
				v.Count++
			} else {
				txt := strings.Join(block, "\n")
				m.Viol[key] = &Violation{Key: key, What: "the Go race detector reported a data race", Count: 1,
					Witness: map[string]any{"report": Trunc(txt, 6000)}}
			}
			block = nil
		}
		for sc.Scan() {
			l := sc.Text()
			if strings.HasPrefix(l, "WARNING: DATA RACE") {
				flush()
				block = []string{l}
				continue
			}
			if strings.HasPrefix(l, "==================") {
				flush()
				continue
			}
			if block != nil {
				block = append(block, l)
			}
		}
		flush()
		fh.Close()
	}
}

type finding struct {
	status, prop, key, text string
}

func loadFindings() []finding {
	var out []finding
	b, err := os.ReadFile(filepath.Join(root(), "known_findings.txt"))
	if err != nil {
		return nil
	}
	for _, l := range strings.Split(string(b), "\n") {
		l = strings.TrimSpace(l)
		var f finding
		switch {
		case strings.HasPrefix(l, "known:"):
			f.status = "known"
			l = strings.TrimSpace(strings.TrimPrefix(l, "known:"))
		case strings.HasPrefix(l, "fixed:"):
			f.status = "fixed"
			l = strings.TrimSpace(strings.TrimPrefix(l, "fixed:"))
		default:
			continue
		}
		for _, w := range strings.Fields(l) {
			if strings.HasPrefix(w, "property=") && f.prop == "" {
				f.prop = strings.TrimPrefix(w, "property=")
			}
			if strings.HasPrefix(w, "key=") && f.key == "" {
				f.key = strings.TrimPrefix(w, "key=")
			}
		}
		f.text = l
		out = append(out, f)
	}
	return out
}

// driveNotes are remarks of the driver that are neither violations nor reasons for an inconclusive verdict.
var driveNotes []string

func conclude(p *Prop, tier string, seed uint64, nshards int, m *Merged, inconclusive []string, wall float64, writeEvidence bool) int {
	known := map[string]string{}
	for _, f := range loadFindings() {
		if f.status == "known" && f.prop == p.ID && f.key != "" {
			known[f.key] = f.text
		}
	}
	nviol := 0
	replayDir := filepath.Join(root(), "replays")
	for _, k := range sortedKeys(m.Viol) {
		v := m.Viol[k]
		if txt, ok := known[v.Key]; ok {
			if i := strings.Index(txt, "::"); i >= 0 {
				txt = strings.TrimSpace(txt[i+2:])
			}
			fmt.Printf("KNOWN-FINDING: property=%s %s [key %s, seen %d times in this run]\n", p.ID, txt, v.Key, v.Count)
			m.Obs["known_finding_hits"] += v.Count
			continue
		}
		nviol++
		os.MkdirAll(replayDir, 0o755)
		path := filepath.Join(replayDir, fmt.Sprintf("%s-%016x.json", p.ID, HashString(v.Key)))
		rp := map[string]any{"property": p.ID, "key": v.Key, "what": v.What, "count": v.Count, "tier": tier, "seed": seed,
			"shard": v.Shard, "nshards": nshards, "case_no": v.CaseNo, "witness": v.Witness}
		js, _ := json.MarshalIndent(rp, "", " ")
		os.WriteFile(path, js, 0o644)
		if nviol <= 40 {
			fmt.Printf("VIOLATION property=%s replay=%s\n", p.ID, path)
			fmt.Printf("  key=%s count=%d\n  %s\n", v.Key, v.Count, v.What)
			if w, err := json.Marshal(v.Witness); err == nil {
				fmt.Printf("  witness=%s\n", Trunc(string(w), 1500))
			}
		}
	}
	if nviol > 40 {
		fmt.Printf("... and %d more distinct violation keys (replay files written)\n", nviol-40)
	}
	if writeEvidence {
		if m.Samples == nil {
			m.Samples = []any{}
		}
		cov := map[string]any{
			"evaluations":          m.Evals,
			"distinct_nontrivial":  m.Distinct,
			"rule":                 p.Rule,
			"samples":              m.Samples,
			"exhaustive":           p.Exhaustive != nil && p.Exhaustive(tier),
			"skipped_cases":        m.Skipped,
			"monitor_observations": m.Obs,
			"worker_processes":     nshards,
		}
		if len(inconclusive) > 0 {
			cov["inconclusive"] = inconclusive
		}
		if len(driveNotes) > 0 {
			cov["notes"] = driveNotes
		}
		ev := map[string]any{
			"property_id": p.ID, "tier": tier, "seed": seed, "level": p.Level, "coverage": cov,
			"assumptions": p.Assumptions, "wall_s": wall, "violations": nviol,
		}
		js, _ := json.MarshalIndent(ev, "", " ")
		os.MkdirAll(filepath.Join(root(), "evidence"), 0o755)
		if err := os.WriteFile(filepath.Join(root(), "evidence", p.ID+".json"), js, 0o644); err != nil {
			fmt.Fprintln(os.Stderr, "write evidence:", err)
			return ExitInconclusive
		}
	}
	for _, n := range driveNotes {
		fmt.Printf("NOTE: %s\n", n)
	}
	fmt.Printf("%s %s seed=%d: evaluations=%d distinct_nontrivial=%d violations=%d wall=%.1fs\n", p.ID, tier, seed, m.Evals, m.Distinct, nviol, wall)
	if nviol > 0 {
		return ExitViolation
	}
	if len(inconclusive) > 0 {
		for _, s := range inconclusive {
			fmt.Printf("INCONCLUSIVE: %s\n", s)
		}
		return ExitInconclusive
	}
	return ExitHeld
}

func replay(p *Prop, path string) int {
	js, err := os.ReadFile(path)
	if err != nil {
		fmt.Fprintln(os.Stderr, err)
		return ExitInconclusive
	}
	var rp struct {
		Key     string `json:"key"`
		Tier    string `json:"tier"`
		Seed    uint64 `json:"seed"`
		Shard   int    `json:"shard"`
		NShards int    `json:"nshards"`
		CaseNo  int64  `json:"case_no"`
	}
	if err := json.Unmarshal(js, &rp); err != nil {
		fmt.Fprintln(os.Stderr, err)
		return ExitInconclusive
	}
	if rp.CaseNo == 0 {
		fmt.Println("this witness is not tied to a single case (e.g. a race report); re-run the check itself")
		return ExitInconclusive
	}
	dir := filepath.Join(root(), ".work", fmt.Sprintf("%s-replay-%d", p.ID, os.Getpid()))
	os.MkdirAll(dir, 0o755)
	if os.Getenv("VERIF_KEEP_WORK") == "" { // set it to keep the worker's stderr (goroutine dump) of a replayed crash
		defer os.RemoveAll(dir)
	} else {
		fmt.Println("work directory kept:", dir)
	}
	r := runShard(p, rp.Tier, rp.Seed, rp.Shard, rp.NShards, dir, rp.CaseNo, nil, 30*time.Minute)
	m := &Merged{Viol: map[string]*Violation{}, Obs: map[string]int64{}}
	if r.crashed {
		no, desc := readCur(shardBase(dir, rp.Shard) + ".cur")
		class, site := classifyCrash(shardBase(dir, rp.Shard)+".stderr", r.exit)
		key := "fatal|" + strings.ReplaceAll(class, " ", "_") + "|" + site
		m.Viol[key] = &Violation{Key: key, What: class, Count: 1, Shard: rp.Shard, CaseNo: no, Witness: map[string]any{"case": desc}}
		m.Evals = 1
	} else {
		// only the replayed shard exists
		one := mergeShardsOne(dir, rp.Shard)
		m = one
	}
	if p.Race {
		collectRaces(dir, m)
	}
	fmt.Printf("replaying %s case %d of shard %d/%d (seed %d, tier %s)\n", p.ID, rp.CaseNo, rp.Shard, rp.NShards, rp.Seed, rp.Tier)
	return conclude(p, rp.Tier, rp.Seed, rp.NShards, m, nil, 0, false)
}

func mergeShardsOne(dir string, shard int) *Merged {
	m := &Merged{Viol: map[string]*Violation{}, Obs: map[string]int64{}}
	js, err := os.ReadFile(shardBase(dir, shard) + ".json")
	if err != nil {
		return m
	}
	var r report
	if json.Unmarshal(js, &r) != nil {
		return m
	}
	m.Evals, m.Viol, m.Obs, m.Samples = r.Evals, r.Viol, r.Obs, r.Samples
	if m.Viol == nil {
		m.Viol = map[string]*Violation{}
	}
	if m.Obs == nil {
		m.Obs = map[string]int64{}
	}
	return m
}
