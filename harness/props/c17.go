package props

import (
	"encoding/json"
	"fmt"
	"math"
	"math/big"
	"strconv"
	"strings"

	"github.com/osteele/liquid"

	"verif/harness/core"
	"verif/harness/gen"
	"verif/harness/ref"
)

func init() {
	core.Register(&core.Prop{
		ID:         "C17",
		Level:      "exploration",
		Rule:       "EXHAUSTIVE pairs over the numeric universe N = {-12..12} + {+-2^31, +-(2^53-1), +-2^53} + {k/4 : -48<=k<=48} + numeric strings {\"7\",\"-3\",\"2.50\",\"0\"} + {nil, \"x\", \"\", \"1e\"} (about 150 values, 22k ordered pairs) x the nine numeric filters, operands bound as variables in PRNG-chosen integer/float widths and spelled as literals; expected values from exact rational arithmetic (math/big). Plus PRNG chains of 2..5 numeric filters evaluated stepwise exactly, and the identities a+b-b=a, (a*b)/b=a; float32 operands that are not short decimals (1/3, 0.1, 2^53, 3.4e38, ...) through operations whose exact result is a float64. Non-trivial = both operands numeric and not both zero; distinct = distinct (filter, operands).",
		Exhaustive: func(string) bool { return true },
		Assumptions: []string{
			"divided_by with an integer divisor: any integer q with |a/b - q| < 1 is accepted (truncation and floor are both 'integer division'); modulo: any r with |r| < |b| and (a-r)/b integral",
			"when the exact result is not representable as a float64 the output only has to parse to a number within 2^-50 relative error",
			"nil operands, numeric strings as arguments, negative round places, magnitudes beyond 2^53, negative zero: not asserted",
		},
		Run: runC17,
	})
}

func c17Universe() []gen.V {
	var u []gen.V
	for i := int64(-12); i <= 12; i++ {
		u = append(u, gen.Int(i))
	}
	for _, x := range []int64{1 << 31, (1 << 53) - 1, 1 << 53} {
		u = append(u, gen.Int(x), gen.Int(-x))
	}
	for k := -48; k <= 48; k++ {
		if k%4 != 0 {
			u = append(u, gen.Float(float64(k)/4))
		} else if k%8 == 0 {
			u = append(u, gen.Float(float64(k)/4)) // whole-number floats too
		}
	}
	for _, s := range []string{"7", "-3", "2.50", "0", "x", "", "1e", "010", "-017", "0x10", "007.50", "nan", "inf", "-Inf", "NaN", "infinity"} {
		u = append(u, gen.Str(s))
	}
	u = append(u, gen.Nil)
	return u
}

// parseOut parses engine output as an exact rational.
func parseOut(s string) (*big.Rat, bool) {
	if s == "" || strings.ContainsAny(s, "NnIi") { // NaN, Inf
		return nil, false
	}
	r, ok := new(big.Rat).SetString(s)
	return r, ok
}

func isIntText(s string) bool {
	if s == "" {
		return false
	}
	for i, c := range s {
		if !(c >= '0' && c <= '9' || c == '-' && i == 0) {
			return false
		}
	}
	return s != "-"
}

func closeEnough(got, want *big.Rat) bool {
	if got.Cmp(want) == 0 {
		return true
	}
	d := new(big.Rat).Sub(got, want)
	d.Abs(d)
	w := new(big.Rat).Abs(want)
	tol := new(big.Rat).Mul(w, big.NewRat(1, 1<<50))
	return d.Cmp(tol) <= 0
}

// numText is how the exact value should print when it is representable.
func numText(r *big.Rat) (string, bool) {
	v, ok := ref.FromRat(r)
	if !ok {
		return "", false
	}
	return gen.FormatFloat(v.F), true
}

type c17Operand struct {
	v   gen.V
	st  ref.Status // OK (number), Err (must be an error), Unsp
	rat *big.Rat
	isI bool // integer-typed (for divided_by)
}

func c17Classify(v gen.V, receiver bool) c17Operand {
	o := c17Operand{v: v}
	switch v.K {
	case gen.KInt:
		o.st, o.rat, o.isI = ref.OK, ref.Rat(v), true
	case gen.KFloat:
		o.st, o.rat = ref.OK, ref.Rat(v)
	case gen.KStr:
		n, ok := ref.ParseNum(v.S)
		switch {
		case ok && receiver:
			o.st, o.rat, o.isI = ref.OK, ref.Rat(n), n.K == gen.KInt
		case ok:
			o.st = ref.Unsp
		case strings.ContainsAny(v.S, "eE+_ ") && !strings.HasPrefix(v.S, "0x") || strings.TrimSpace(v.S) != v.S:
			o.st = ref.Unsp
		default:
			o.st = ref.Err
		}
	default:
		o.st = ref.Unsp
	}
	return o
}

func ratFloor(r *big.Rat) *big.Int {
	q := new(big.Int)
	m := new(big.Int)
	q.DivMod(r.Num(), r.Denom(), m) // Euclidean: for positive denominators this is floor
	return q
}

func runC17(c *core.Ctx) {
	e := liquid.NewEngine()
	U := c17Universe()
	binary := []string{"plus", "minus", "times", "divided_by", "modulo"}
	tpls := map[string]*liquid.Template{}
	for _, f := range append(append([]string{}, binary...), "round") {
		t, pr := core.ParsePlain(e, "{{ a | "+f+": b }}")
		if !pr.OK() {
			c.Violate("parse|"+f, "numeric filter template does not parse", map[string]any{"observed": pr.Brief()})
			return
		}
		tpls[f] = t
	}
	for _, f := range []string{"abs", "ceil", "floor", "round"} {
		t, _ := core.ParsePlain(e, "{{ a | "+f+" }}")
		tpls[f+"/0"] = t
	}
	idx := 0
	for _, va := range U {
		a := c17Classify(va, true)
		// ---- unary ----
		for _, f := range []string{"abs", "ceil", "floor", "round"} {
			idx++
			if !c.Mine(idx) {
				continue
			}
			r := c.Rand(idx)
			ga := gen.Realise(va, r, gen.Rep{Widths: true, Unsigned: true, Named: true}, false)
			if !c.Begin(fmt.Sprintf("unary:%s(%s)", f, gen.Describe(ga))) {
				continue
			}
			res := core.Render(tpls[f+"/0"], map[string]any{"a": ga})
			c.Eval(1)
			c.Obs("unary_cases", 1)
			c17Judge(c, f, a, c17Operand{st: ref.OK, rat: new(big.Rat), isI: true}, false, res, gen.Describe(ga), "")
			if a.st == ref.OK && a.rat.Sign() != 0 {
				c.Distinct(f, gen.Describe(ga))
			}
		}
		// ---- binary ----
		for _, vb := range U {
			b := c17Classify(vb, false)
			for _, f := range binary {
				idx++
				if !c.Mine(idx) {
					continue
				}
				r := c.Rand(idx)
				rep := gen.Rep{Widths: idx%3 != 0, Unsigned: idx%2 == 0, Named: idx%5 == 0}
				ga := gen.Realise(va, r, rep, false)
				gb := gen.Realise(vb, r, rep, false)
				if !c.Begin(fmt.Sprintf("binary:%s(%s,%s)", f, gen.Describe(ga), gen.Describe(gb))) {
					continue
				}
				res := core.Render(tpls[f], map[string]any{"a": ga, "b": gb})
				c.Eval(1)
				c.Obs("binary_cases", 1)
				c17Judge(c, f, a, b, true, res, gen.Describe(ga), gen.Describe(gb))
				if a.st == ref.OK && b.st == ref.OK && (a.rat.Sign() != 0 || b.rat.Sign() != 0) {
					c.Distinct(f, gen.Describe(ga), gen.Describe(gb))
				}
				if idx%20011 == 3 {
					c.Sample(map[string]any{"source": "{{ a | " + f + ": b }}", "a": gen.Describe(ga), "b": gen.Describe(gb), "observed": res.Brief()})
				}
				// literal spelling of the same operands must agree with the variable form
				if idx%7 == 0 {
					la, oka := gen.DefaultStyle.LitSource(va)
					lb, okb := gen.DefaultStyle.LitSource(vb)
					if oka && okb && va.K != gen.KNil && vb.K != gen.KNil {
						lr := core.Run(e, "{{ "+la+" | "+f+": "+lb+" }}", nil)
						c.Eval(1)
						c17Judge(c, f, a, b, true, lr, "literal "+la, "literal "+lb)
					}
				}
				// operands that went through assign first are the same numbers (2.0 stays a float: dividing by it is real division)
				if idx%5 == 1 {
					ar := core.Run(e, "{% assign x = a %}{% assign y = b %}{% for i in (1..1) %}{% assign y2 = y %}{% endfor %}{{ x | "+f+": y2 }}", map[string]any{"a": ga, "b": gb})
					c.Eval(1)
					c.Obs("assigned_operand_cases", 1)
					c17Judge(c, f, a, b, true, ar, "assigned "+gen.Describe(ga), "assigned (twice) "+gen.Describe(gb))
				}
			}
		}
		// ---- round with places ----
		for p := 0; p <= 3; p++ {
			idx++
			if !c.Mine(idx) {
				continue
			}
			ga := gen.Canon(va)
			if !c.Begin(fmt.Sprintf("round:%s places %d", gen.Describe(ga), p)) {
				continue
			}
			res := core.Render(tpls["round"], map[string]any{"a": ga, "b": p})
			c.Eval(1)
			c17Judge(c, "round", a, c17Operand{st: ref.OK, rat: big.NewRat(int64(p), 1), isI: true}, true, res, gen.Describe(ga), fmt.Sprint(p))
		}
	}
	// ---- the optional operand of round: a string that does not spell a number is an error there as well ----------------
	if c.Shard == 9%c.NShards && c.Begin("round with a non-numeric places operand") {
		for _, recv := range []any{2.567, 7, "2.5", float32(1.25), -3.14159} {
			for _, places := range []any{nil, (*int)(nil)} {
				// nil for the optional operand: the statement does not say what it means, only that nothing may blow up
				res := core.Render(tpls["round"], map[string]any{"a": recv, "b": places})
				lit := core.Run(e, fmt.Sprintf("{{ %v | round: nil }}|{{ %v | round: undefined_name }}", 2.5, 7), nil)
				c.Eval(2)
				if res.Panic != "" || res.Shape != "" || lit.Panic != "" || lit.Shape != "" {
					c.Violate("panic|round-nil-places", "a nil operand for round's optional places must give output or an error, never a panic", map[string]any{"a": gen.Describe(recv), "observed_variable": res.Brief(), "observed_literal": lit.Brief()})
				}
			}
			for _, places := range []any{"two", "x", "", "1e", "nan", "-", "1.2.3", []any{1}, map[string]any{"a": 1}} {
				res := core.Render(tpls["round"], map[string]any{"a": recv, "b": places})
				lit := core.Res{IsErr: true}
				if ps, ok := places.(string); ok {
					lit = core.Run(e, fmt.Sprintf("{{ %v | round: %q }}", recv, ps), nil)
					if _, isStr := recv.(string); isStr {
						lit = core.Run(e, fmt.Sprintf("{{ %q | round: %q }}", recv, ps), nil)
					}
				}
				c.Eval(2)
				c.Obs("round_bad_places_cases", 1)
				c.Distinct("roundbad", fmt.Sprint(recv), fmt.Sprint(places))
				if !res.Failed() || !lit.Failed() {
					c.Violate("non-numeric-operand|round-places", "a string (or collection) operand that does not spell a number must be reported as an error, not replaced by a default",
						map[string]any{"a": gen.Describe(recv), "places": gen.Describe(places), "observed_variable": res.Brief(), "observed_literal": lit.Brief()})
				}
			}
		}
	}
	// ---- numbers that arrive as json.Number, uintptr or unsigned values beyond the int64 range -----------------------------
	if c.Shard == 11%c.NShards && c.Begin("unusual numeric types") {
		for _, cs := range []struct {
			src  string
			b    map[string]any
			want string
		}{{"{{ 1.5 | round: p }}|{{ 12.75 | round: 24 }}|{{ 2.5 | round: 400 }}|{{ -0.125 | round: 40 }}|{{ 7 | round: 300 }}", map[string]any{"p": int64(9007199254740992)}, "1.5|12.75|2.5|-0.125|7"},
			{"{{ 0 | round: 309 }}|{{ 0 | round: p }}|{{ '0' | round: 400 }}|{{ 0.0 | round: 2147483647 }}|{{ 3 | minus: 3 | round: 400 }}|{{ z | round: 310 }}", map[string]any{"p": int64(9007199254740992), "z": uint8(0)}, "0|0|0|0|0|0"},
			{"{{ 14 | divided_by: d }}|{{ 14 | modulo: d }}|{{ d | plus: 1 }}|{{ d | times: 2 }}", map[string]any{"d": json.Number("7")}, "2|0|8|14"}, {"{{ 5 | divided_by: d }}|{{ d | plus: 0.5 }}", map[string]any{"d": json.Number("2.5")}, "2|3"},
			{"{{ 14 | divided_by: d }}|{{ d | minus: 1 }}", map[string]any{"d": uintptr(7)}, "2|6"}, {"{{ 14 | divided_by: d }}|{{ 14.0 | divided_by: d }}", map[string]any{"d": gen.NInt(4)}, "3|3"}, {"{{ 14 | divided_by: d }}", map[string]any{"d": gen.NFloat(4)}, "3.5"},
			{"{{ 5 | divided_by: d }}|{{ -5 | divided_by: d }}", map[string]any{"d": uint64(math.MaxUint64)}, "0|0"}, {"{{ 5 | divided_by: d }}", map[string]any{"d": uint64(1) << 63}, "0"}, {"{{ 7 | divided_by: d }}", map[string]any{"d": gen.NUint(2)}, "3"},
			{"{{ d | divided_by: 2 }}|{{ d | abs }}", map[string]any{"d": gen.NTitle("9")}, "4|9"}} {
			res := core.Run(e, cs.src, cs.b)
			c.Eval(1)
			c.Obs("unusual_numeric_type_cases", 1)
			c.Distinct("unusualnum", cs.src, gen.DescribeEnv(cs.b))
			if !res.OK() || res.Out != cs.want {
				c.Violate("unusual-numeric-type|"+strings.Fields(cs.src)[3], "a number is a number whatever Go type carries it (json.Number, named numeric types, uintptr, unsigned values beyond the int64 range, a named string that spells one as receiver)",
					map[string]any{"source": cs.src, "bindings": gen.DescribeEnv(cs.b), "expected": cs.want, "observed": res.Brief()})
			}
		}
	}
	c17Chains(c, e)
	c17Float32(c, e)
}

// c17Float32: a float32 operand enters the arithmetic with exactly its own value (every float32 is exactly
// representable as a float64), not with the value of its shortest decimal spelling. Only operations whose exact
// result is again a float64 are used, so the expected output is determined exactly.
func c17Float32(c *core.Ctx, e *liquid.Engine) {
	if c.Shard != 3%c.NShards || !c.Begin("float32 exactness family") {
		return
	}
	vals := []float32{float32(1) / 3, 0.1, float32(2) / 3, 0.7, 16777216, float32(1 << 53), 1e10, -float32(1) / 3, 3.4e38, 1.1754944e-38, 33554434, 0.2, 100.3}
	for _, f := range vals {
		x := float64(f)
		exact := new(big.Rat).SetFloat64(x)
		type cse struct {
			src  string
			want *big.Rat
		}
		two, zero := big.NewRat(2, 1), new(big.Rat)
		cases := []cse{
			{"{{ f | times: 1 }}", exact}, {"{{ f | plus: 0 }}", exact}, {"{{ f | times: 2 }}", new(big.Rat).Mul(exact, two)}, {"{{ f | minus: d }}", zero}, {"{{ d | minus: f }}", zero},
			{"{{ f | abs }}", new(big.Rat).Abs(exact)}, {"{{ 0 | plus: f }}", exact}, {"{{ 1 | times: f }}", exact}, {"{{ 1.0 | times: f }}", exact}, {"{{ f | divided_by: 1.0 }}", exact}, {"{{ f | times: 1 | minus: d }}", zero},
		}
		for _, cs := range cases {
			res := core.Run(e, cs.src, map[string]any{"f": f, "d": x})
			c.Eval(1)
			c.Obs("float32_exactness_cases", 1)
			c.Distinct("f32", cs.src, fmt.Sprint(f))
			// the output is the shortest decimal that identifies the float64 result: compare as float64
			got, perr := strconv.ParseFloat(res.Out, 64)
			want, _ := cs.want.Float64()
			if !res.OK() || perr != nil || got != want {
				c.Violate("float32-operand|"+strings.Fields(cs.src)[3], "a float32 operand must enter the arithmetic with exactly its numeric value (operands and result are exactly representable as 64-bit floats)",
					map[string]any{"source": cs.src, "f": fmt.Sprintf("float32(%v) = %v exactly", f, x), "d": x, "expected": cs.want.FloatString(20), "observed": res.Brief()})
			}
		}
	}
}

// c17Judge applies the C17 oracle to one filter application.
func c17Judge(c *core.Ctx, f string, a, b c17Operand, binary bool, res core.Res, da, db string) {
	wit := func(exp string) map[string]any {
		return map[string]any{"filter": f, "a": da, "b": db, "expected": exp, "observed": res.Brief()}
	}
	if res.Panic != "" || res.Shape != "" {
		c.Violate("panic|"+f, "a numeric filter panicked", wit("a number or an error"))
		return
	}
	// zero divisor
	if (f == "divided_by" || f == "modulo") && b.st == ref.OK && b.rat.Sign() == 0 && a.st != ref.Unsp {
		if !res.IsErr {
			c.Violate("zero-divisor|"+f, "dividing or taking a remainder by zero must be reported as an error", wit("an error"))
		}
		c.Obs("error_cases_checked", 1)
		return
	}
	if a.st == ref.Err && (!binary || b.st != ref.Unsp) || binary && b.st == ref.Err && a.st != ref.Unsp {
		if !res.IsErr {
			c.Violate("non-numeric-operand|"+f, "a string operand that does not spell a number must be reported as an error", wit("an error"))
		}
		c.Obs("error_cases_checked", 1)
		return
	}
	if a.st != ref.OK || binary && b.st != ref.OK {
		c.Obs("unspecified_operand", 1)
		return
	}
	if res.IsErr {
		c.Violate("unexpected-error|"+f, "the filter failed although both operands are numbers and the operation is possible", wit("a number"))
		return
	}
	got, ok := parseOut(res.Out)
	if !ok {
		c.Violate("not-a-number|"+f, "the filter printed something that is not a number", wit("a number"))
		return
	}
	c.Obs("values_checked", 1)
	exact := new(big.Rat)
	switch f {
	case "plus":
		exact.Add(a.rat, b.rat)
	case "minus":
		exact.Sub(a.rat, b.rat)
	case "times":
		exact.Mul(a.rat, b.rat)
	case "abs":
		exact.Abs(a.rat)
	case "ceil", "floor":
		fl := ratFloor(a.rat)
		if f == "ceil" && !a.rat.IsInt() {
			fl.Add(fl, big.NewInt(1))
		}
		exact.SetInt(fl)
		if !isIntText(res.Out) {
			c.Violate("not-integer|"+f, "ceil and floor must return integers (printed without a fractional part)", wit(exact.RatString()))
			return
		}
	case "round":
		p := int64(0)
		if binary {
			p = b.rat.Num().Int64()
		}
		scale := new(big.Rat).SetInt(new(big.Int).Exp(big.NewInt(10), big.NewInt(p), nil))
		x := new(big.Rat).Mul(a.rat, scale)
		x.Add(x, big.NewRat(1, 2))
		exact.SetInt(ratFloor(x))
		exact.Quo(exact, scale)
	case "divided_by":
		q := new(big.Rat).Quo(a.rat, b.rat)
		if b.isI {
			if !isIntText(res.Out) {
				c.Violate("not-integer|divided_by", "divided_by with an integer divisor performs integer division: the result must print as an integer", wit("an integer within 1 of "+q.FloatString(4)))
				return
			}
			d := new(big.Rat).Sub(q, got)
			if d.Abs(d).Cmp(big.NewRat(1, 1)) >= 0 {
				c.Violate("wrong-value|divided_by-int", "divided_by with an integer divisor is not the integer quotient", wit("an integer within 1 of "+q.FloatString(4)))
			}
			return
		}
		exact = q
	case "modulo":
		// r with |r| < |b| and (a - r)/b integral
		absb := new(big.Rat).Abs(b.rat)
		if new(big.Rat).Abs(got).Cmp(absb) >= 0 {
			c.Violate("wrong-value|modulo-range", "modulo result is not smaller in magnitude than the divisor", wit("|r| < |b|"))
			return
		}
		k := new(big.Rat).Sub(a.rat, got)
		k.Quo(k, b.rat)
		if !k.IsInt() {
			// tolerate float rounding only when operands are not exactly representable (never the case in N)
			c.Violate("wrong-value|modulo", "modulo result r does not satisfy (a - r)/b integral", wit("a remainder of a by b"))
		}
		return
	}
	if want, repr := numText(exact); repr {
		if res.Out == want {
			return
		}
		// a whole-number result prints without a fractional part: as its digits (1.234567e+06 shows one, and -0 is
		// not what 0 times -1 is). A result that is not whole may be spelled in exponent notation, which the
		// statement does not rule out, as long as it is the same float64 value.
		wf, _ := exact.Float64()
		gf, err := strconv.ParseFloat(res.Out, 64)
		if !exact.IsInt() && err == nil && gf == wf {
			// how a number that is not whole is spelled (1.2345675e+06 or 1234567.5) is not stated: the same float64 value
			c.Obs("exact_value_in_another_spelling", 1)
			return
		}
		c.Violate("wrong-value|"+f, "the filter did not compute the exact arithmetic result (or printed a whole number with a fractional part)", wit(want))
		return
	}
	if !closeEnough(got, exact) {
		c.Violate("wrong-value|"+f+"|inexact", "the filter result is not within 2^-50 of the exact result", wit(exact.FloatString(20)))
	}
}

func c17Chains(c *core.Ctx, e *liquid.Engine) {
	n := c.Pick(100000, 2000000)
	ops := []string{"plus", "minus", "times", "divided_by", "abs", "ceil", "floor", "round"}
	for i := 0; i < n; i++ {
		if !c.Mine(i) {
			continue
		}
		r := c.Rand(i, 17)
		start := float64(r.Range(-40, 40)) / 4
		cur := new(big.Rat).SetFloat64(start)
		src := fmt.Sprintf("{{ %s", gen.FormatFloat(start))
		if !strings.Contains(src, ".") && r.Bool() {
			src += ".0"
		}
		valid := true
		for k := r.Range(2, 5); k > 0 && valid; k-- {
			op := ops[r.Intn(len(ops))]
			arg := float64(r.Range(-12, 12)) / 4
			ar := new(big.Rat).SetFloat64(arg)
			argS := gen.FormatFloat(arg)
			switch op {
			case "plus":
				cur.Add(cur, ar)
				if r.P(1, 3) { // the argument is itself a filtered expression in parentheses
					half := float64(r.Range(-8, 8)) / 4
					src += " | plus: (" + gen.FormatFloat(half) + " | plus: " + gen.FormatFloat(arg-half) + ")"
				} else {
					src += " | plus: " + argS
				}
			case "minus":
				cur.Sub(cur, ar)
				if r.P(1, 3) {
					half := float64(r.Range(-8, 8)) / 4
					src += " | minus: (" + gen.FormatFloat(arg-half) + " | plus: " + gen.FormatFloat(half) + " | times: 1)"
				} else {
					src += " | minus: " + argS
				}
			case "times":
				cur.Mul(cur, ar)
				src += " | times: " + argS
			case "divided_by":
				// float divisor (always spelled with a fraction) that divides exactly
				if arg == 0 {
					arg, ar, argS = 0.5, big.NewRat(1, 2), "0.5"
				}
				if arg == math.Trunc(arg) {
					argS += ".0"
				}
				cur.Quo(cur, ar)
				src += " | divided_by: " + argS
			case "abs":
				cur.Abs(cur)
				src += " | abs"
			case "ceil":
				fl := ratFloor(cur)
				if !cur.IsInt() {
					fl.Add(fl, big.NewInt(1))
				}
				cur.SetInt(fl)
				src += " | ceil"
			case "floor":
				cur.SetInt(ratFloor(cur))
				src += " | floor"
			case "round":
				x := new(big.Rat).Add(cur, big.NewRat(1, 2))
				cur.SetInt(ratFloor(x))
				src += " | round"
			}
			if _, repr := ref.FromRat(cur); !repr {
				valid = false // an intermediate is not exactly representable: the chain is not determined exactly
			}
		}
		src += " }}"
		if !valid {
			c.Skip("chain with an intermediate that is not exactly representable")
			continue
		}
		if !c.Begin("chain:" + src) {
			continue
		}
		want, _ := numText(cur)
		res := core.Run(e, src, nil)
		c.Eval(1)
		c.Obs("chain_cases", 1)
		c.Distinct("chain", src)
		if gf, err := strconv.ParseFloat(res.Out, 64); res.OK() && err == nil && !cur.IsInt() {
			if wf, _ := cur.Float64(); wf == gf {
				continue
			}
		}
		if !res.OK() || res.Out != want {
			c.Violate("chain|"+resClass(res), "a chain of numeric filters differs from exact stepwise arithmetic", map[string]any{"source": src, "expected": want, "observed": res.Brief()})
		}
	}
	// identities
	for i := 0; i < c.Pick(5000, 100000); i++ {
		if !c.Mine(i) {
			continue
		}
		r := c.Rand(i, 18)
		a, b := float64(r.Range(-400, 400))/4, float64(r.Range(-400, 400))/4
		if b == 0 {
			b = 1.25
		}
		if !c.Begin(fmt.Sprintf("identity: a=%v b=%v", a, b)) {
			continue
		}
		bind := map[string]any{"a": a, "b": b}
		want := gen.FormatFloat(a)
		if a == 0 {
			continue
		}
		expectOut(c, e, "{{ a | plus: b | minus: b }}", bind, want, "identity|plus-minus", "a + b - b must equal a when everything is exactly representable", nil)
		expectOut(c, e, "{{ a | times: b | divided_by: b }}", bind, want, "identity|times-divided", "(a * b) / b must equal a (float b) when everything is exactly representable", nil)
		c.Distinct("ident", fmt.Sprint(a, b))
	}
}
