package core

import (
	"bytes"
	"fmt"
	"io"
	"reflect"
	"runtime"
	"strings"

	"github.com/osteele/liquid"
	"github.com/osteele/liquid/verifhook"
)

// Res is what one library call at the API boundary returned.
type Res struct {
	Out    string
	IsErr  bool
	Err    string
	Line   int
	Path   string
	SrcErr liquid.SourceError
	Panic  string // non-empty: a panic reached the API boundary
	Site   string // innermost repository function on the panic stack
	Budget bool   // the panic was the step budget sentinel
	Shape  string // non-empty: result is neither (output,nil) nor (zero,non-nil SourceError)
}

// OK reports a successful call.
func (r Res) OK() bool { return !r.IsErr && r.Panic == "" && r.Shape == "" }

// Failed reports a clean failure (a SourceError).
func (r Res) Failed() bool { return r.IsErr && r.Panic == "" && r.Shape == "" }

// Same compares the observable result of two calls: bytes, or error identity.
func (r Res) Same(o Res) bool {
	if r.Panic != "" || o.Panic != "" {
		return r.Panic == o.Panic
	}
	if r.IsErr != o.IsErr {
		return false
	}
	if r.IsErr {
		return r.Err == o.Err && r.Line == o.Line && r.Path == o.Path
	}
	return r.Out == o.Out
}

// Brief renders a result for witnesses and samples.
func (r Res) Brief() string {
	switch {
	case r.Panic != "":
		return "PANIC[" + r.Site + "]: " + Trunc(r.Panic, 200)
	case r.Shape != "":
		return "BADSHAPE: " + r.Shape
	case r.IsErr:
		return fmt.Sprintf("ERR(line=%d,path=%q): %s", r.Line, r.Path, Trunc(r.Err, 200))
	default:
		return "OUT: " + fmt.Sprintf("%q", Trunc(r.Out, 300))
	}
}

// Trunc shortens s for display.
func Trunc(s string, n int) string {
	if len(s) <= n {
		return s
	}
	return s[:n] + fmt.Sprintf("…(+%d bytes)", len(s)-n)
}

func panicSite() string {
	pcs := make([]uintptr, 64)
	n := runtime.Callers(3, pcs)
	frames := runtime.CallersFrames(pcs[:n])
	for {
		f, more := frames.Next()
		if strings.Contains(f.Function, "github.com/osteele/liquid") && !strings.Contains(f.Function, "verifhook") {
			fn := strings.TrimPrefix(f.Function, "github.com/osteele/liquid")
			return fn
		}
		if !more {
			break
		}
	}
	return "?"
}

func catch(r *Res) {
	if p := recover(); p != nil {
		if b, ok := p.(verifhook.BudgetExceeded); ok {
			r.Budget = true
			r.Panic = fmt.Sprintf("step budget exceeded (%d steps)", b.Steps)
			r.Site = "budget"
			return
		}
		r.Site = panicSite()
		full := fmt.Sprint(p)
		if i := strings.Index(full, "Original stacktrace:"); i >= 0 {
			// a panic re-thrown by the expression evaluator: classify by the original stack
			for _, l := range strings.Split(full[i:], "\n") {
				if strings.HasPrefix(l, "github.com/osteele/liquid") && !strings.Contains(l, "Evaluate.func1") && !strings.Contains(l, "verifhook") {
					fn := strings.TrimPrefix(l, "github.com/osteele/liquid")
					if j := strings.LastIndex(fn, "("); j > 0 {
						fn = fn[:j]
					}
					r.Site = fn
					break
				}
			}
			full = full[:i]
		}
		r.Panic = Trunc(full, 400)
		if r.Panic == "" {
			r.Panic = "(empty panic value)"
		}
	}
}

func isNilIface(e liquid.SourceError) bool {
	if e == nil {
		return true
	}
	rv := reflect.ValueOf(e)
	switch rv.Kind() {
	case reflect.Ptr, reflect.Map, reflect.Slice, reflect.Func, reflect.Interface, reflect.Chan:
		return rv.IsNil()
	}
	return false
}

func (r *Res) setErr(e liquid.SourceError) {
	if e == nil {
		return
	}
	if isNilIface(e) {
		r.Shape = "typed-nil SourceError returned as non-nil interface"
		return
	}
	r.IsErr = true
	r.SrcErr = e
	func() {
		defer func() {
			if p := recover(); p != nil {
				r.Shape = fmt.Sprintf("SourceError method panicked: %v", p)
			}
		}()
		r.Err = e.Error()
		r.Line = e.LineNumber()
		r.Path = e.Path()
	}()
	if r.Shape == "" && r.Err == "" {
		r.Shape = "SourceError with empty message"
	}
}

// Parse calls ParseTemplateLocation at the API boundary.
func Parse(e *liquid.Engine, src string, path string, line int) (t *liquid.Template, r Res) {
	defer catch(&r)
	buf := []byte(src)
	t, err := e.ParseTemplateLocation(buf, path, line)
	scribble(buf)
	r.setErr(err)
	if r.IsErr && t != nil {
		r.Shape = "template returned together with an error"
	}
	if !r.IsErr && r.Shape == "" && t == nil {
		r.Shape = "nil template without error"
	}
	return
}

// scribble overwrites a source buffer after it was handed to a Parse method: the caller owns its buffer and may reuse
// it, so a parsed template (or the include cache) that still refers to it shows up as garbage in every later render.
func scribble(buf []byte) {
	for i := range buf {
		buf[i] = "{%}# -"[i%6]
	}
}

// ParseCache calls ParseTemplateAndCache at the API boundary.
func ParseCache(e *liquid.Engine, src string, path string, line int) (t *liquid.Template, r Res) {
	defer catch(&r)
	buf := []byte(src)
	t, err := e.ParseTemplateAndCache(buf, path, line)
	scribble(buf)
	r.setErr(err)
	if r.IsErr && t != nil {
		r.Shape = "template returned together with an error"
	}
	if !r.IsErr && r.Shape == "" && t == nil {
		r.Shape = "nil template without error"
	}
	return
}

// ParsePlain calls ParseTemplate (no location).
func ParsePlain(e *liquid.Engine, src string) (t *liquid.Template, r Res) {
	defer catch(&r)
	buf := []byte(src)
	t, err := e.ParseTemplate(buf)
	scribble(buf)
	r.setErr(err)
	if r.IsErr && t != nil {
		r.Shape = "template returned together with an error"
	}
	if !r.IsErr && r.Shape == "" && t == nil {
		r.Shape = "nil template without error"
	}
	return
}

// Render calls Template.Render.
func Render(t *liquid.Template, b map[string]any) (r Res) {
	defer catch(&r)
	out, err := t.Render(b)
	r.setErr(err)
	if r.IsErr && len(out) > 0 {
		r.Shape = "output returned together with an error"
	}
	r.Out = string(out)
	return
}

// RenderString calls Template.RenderString.
func RenderString(t *liquid.Template, b map[string]any) (r Res) {
	defer catch(&r)
	out, err := t.RenderString(b)
	r.setErr(err)
	if r.IsErr && len(out) > 0 {
		r.Shape = "output returned together with an error"
	}
	r.Out = out
	return
}

// FRender calls Template.FRender into w. Out is filled only if w is nil
// (an internal buffer is used).
func FRender(t *liquid.Template, w io.Writer, b map[string]any) (r Res) {
	defer catch(&r)
	var buf *bytes.Buffer
	if w == nil {
		buf = new(bytes.Buffer)
		w = buf
	}
	err := t.FRender(w, b)
	r.setErr(err)
	if buf != nil && !r.IsErr {
		r.Out = buf.String()
	}
	return
}

// ParseAndRender calls Engine.ParseAndRender.
func ParseAndRender(e *liquid.Engine, src string, b map[string]any) (r Res) {
	defer catch(&r)
	out, err := e.ParseAndRender([]byte(src), b)
	r.setErr(err)
	if r.IsErr && len(out) > 0 {
		r.Shape = "output returned together with an error"
	}
	r.Out = string(out)
	return
}

// ParseAndRenderString calls Engine.ParseAndRenderString.
func ParseAndRenderString(e *liquid.Engine, src string, b map[string]any) (r Res) {
	defer catch(&r)
	out, err := e.ParseAndRenderString(src, b)
	r.setErr(err)
	if r.IsErr && len(out) > 0 {
		r.Shape = "output returned together with an error"
	}
	r.Out = out
	return
}

// ParseAndFRender calls Engine.ParseAndFRender.
func ParseAndFRender(e *liquid.Engine, w io.Writer, src string, b map[string]any) (r Res) {
	defer catch(&r)
	var buf *bytes.Buffer
	if w == nil {
		buf = new(bytes.Buffer)
		w = buf
	}
	err := e.ParseAndFRender(w, []byte(src), b)
	r.setErr(err)
	if buf != nil && !r.IsErr {
		r.Out = buf.String()
	}
	return
}

// Run parses (location "", 0) and renders; the common case.
func Run(e *liquid.Engine, src string, b map[string]any) Res {
	t, r := ParsePlain(e, src)
	if !r.OK() {
		return r
	}
	return Render(t, b)
}

// RunAt parses with a location and renders.
func RunAt(e *liquid.Engine, src, path string, line int, b map[string]any) Res {
	t, r := Parse(e, src, path, line)
	if !r.OK() {
		return r
	}
	return Render(t, b)
}
