package props

import (
	"fmt"
	"math"
	"strconv"
	"strings"

	"github.com/osteele/liquid"
	yaml "gopkg.in/yaml.v2"

	"verif/harness/core"
	"verif/harness/gen"
	"verif/harness/ref"
)

func init() {
	core.Register(&core.Prop{
		ID:    "C08",
		Level: "exploration",
		Rule: "(1) EXHAUSTIVE index grid: array length 0..5 x index -7..7 and the non-integer indices \"0\", \"x\", nil, true, [0], as literal and as variable, plus first/last/size; PRNG lookup chains (depth <= 5: property, bracket, index, through nil/scalars/missing keys, size with and without a real 'size' key) over nested PRNG bindings, against the reference evaluator; the same in strict-variables mode (error iff the final value is nil); (2) pipelines x | f: a, b | g against their assign-decomposition (metamorphic, every filter family); (3) for every registered filter: one argument more than it declares is an error, and unknown filter names are errors; (3b) literal spellings: integer literals with 0..3 leading zeros and either sign as object, filter argument, comparison operand, index and range bound, float literals with leading/trailing zeros, string literals containing backslashes and delimiter characters in both quote styles (a literal denotes its decimal value / exactly its characters); (4) every generated object/tag printed in 6 whitespace styles (none, spaces, tabs, newlines, CRLF, mixed) must give one result. Non-trivial = the expression has at least one lookup step or filter; distinct = distinct (expression source, bindings).",
		Exhaustive: func(string) bool { return true },
		Assumptions: []string{
			"float indices, non-string indices into maps, size of a string as a property, printing of maps: not asserted",
		},
		Run: runC08,
	})
}

func deepEnv(r *core.Rand) gen.Env {
	leaf := func() gen.V {
		switch r.Intn(6) {
		case 0:
			return gen.Int(int64(r.Range(-5, 50)))
		case 1:
			return gen.Str([]string{"v", "two words", "", "é"}[r.Intn(4)])
		case 2:
			return gen.Nil
		case 3:
			return gen.Bool(r.Bool())
		case 4:
			return gen.Float(float64(r.Range(-8, 8)) / 4)
		}
		return gen.Str("leaf")
	}
	var build func(d int) gen.V
	build = func(d int) gen.V {
		if d <= 0 || r.P(1, 4) {
			return leaf()
		}
		if r.Bool() {
			n := r.Range(0, 4)
			a := make([]gen.V, n)
			for i := range a {
				a[i] = build(d - 1)
			}
			return gen.Arr(a...)
		}
		keys := []string{"a", "b", "size", "first", "k", "x y", "last"}
		m := gen.Map()
		for _, i := range r.Perm(len(keys))[:r.Range(0, 4)] {
			m.M = append(m.M, gen.KV{K: keys[i], V: build(d - 1)})
		}
		return m
	}
	return gen.Env{{K: "p", V: build(4)}, {K: "q", V: build(3)}, {K: "arr", V: gen.Arr(build(2), build(2), build(1))}, {K: "s", V: gen.Str("str")},
		{K: "n", V: gen.Int(int64(r.Range(-2, 3)))}, {K: "key", V: gen.Str([]string{"a", "b", "size", "zz"}[r.Intn(4)])}, {K: "nothing", V: gen.Nil}}
}

func lookupChain(r *core.Rand, depth int) gen.Expr {
	var e gen.Expr = gen.Var{Name: []string{"p", "q", "arr", "s", "n", "nothing", "undefined_name"}[r.Intn(7)]}
	for i := r.Range(1, depth); i > 0; i-- {
		switch r.Intn(7) {
		case 0, 1:
			e = gen.Prop{X: e, Name: []string{"a", "b", "size", "first", "last", "k", "zz"}[r.Intn(7)]}
		case 2:
			e = gen.Prop{X: e, Name: []string{"a", "x y", "size", "k", "first"}[r.Intn(5)], Bracket: true}
		case 3, 4:
			e = gen.Index{X: e, I: gen.Lit{V: gen.Int(int64(r.Range(-4, 4)))}}
		case 5:
			e = gen.Index{X: e, I: gen.Var{Name: []string{"n", "key", "nothing", "s"}[r.Intn(4)]}}
		case 6:
			e = gen.Index{X: e, I: gen.Lit{V: []gen.V{gen.Str("a"), gen.Nil, gen.Bool(true), gen.Str("0")}[r.Intn(4)]}}
		}
	}
	return e
}

func runC08(c *core.Ctx) {
	e := liquid.NewEngine()
	strict := liquid.NewEngine()
	strict.StrictVariables()
	m := &ref.Model{}
	ms := &ref.Model{Strict: true}
	idx := 0
	// ---- (1) index grid ------------------------------------------------------------------
	for L := 0; L <= 5; L++ {
		items := make([]gen.V, L)
		for i := range items {
			items[i] = gen.Str(fmt.Sprintf("e%d", i))
		}
		env := gen.Env{{K: "a", V: gen.Arr(items...)}, {K: "i", V: gen.Nil}}
		var idxs []gen.V
		for i := int64(-7); i <= 7; i++ {
			idxs = append(idxs, gen.Int(i))
		}
		idxs = append(idxs, gen.Str("0"), gen.Str("x"), gen.Nil, gen.Bool(true), gen.Ints(0))
		for _, iv := range idxs {
			for form := 0; form < 3; form++ {
				idx++
				if !c.Mine(idx) {
					continue
				}
				var ex gen.Expr
				env[1].V = iv
				switch form {
				case 0:
					ex = gen.Index{X: gen.Var{Name: "a"}, I: gen.Var{Name: "i"}}
				case 1:
					if _, ok := gen.DefaultStyle.LitSource(iv); !ok {
						continue
					}
					ex = gen.Index{X: gen.Var{Name: "a"}, I: gen.Lit{V: iv}}
				default:
					if iv.K != gen.KInt || iv.I < -1 || iv.I > 1 {
						continue
					}
					ex = gen.Prop{X: gen.Var{Name: "a"}, Name: []string{"first", "size", "last"}[iv.I+1]}
				}
				prog := []gen.Node{gen.Text{S: "<"}, gen.Out{E: ex}, gen.Text{S: ">"}}
				src := gen.DefaultStyle.Source(prog)
				if !c.Begin("index-grid:" + src + " env=" + env.String()) {
					continue
				}
				if modelCompare(c, e, m, prog, env, nil, gen.DefaultStyle, "index-grid", "array indexing / first / last / size differs from the statement (negative indices count from the end; anything that does not apply yields nil)") {
					c.Obs("index_grid_cases", 1)
					c.Distinct("grid", src, env.String())
				}
				if form == 0 && iv.K == gen.KInt {
					// the same index in another integer width (int64, uint8, a named integer type, ...), and as the result of a numeric filter
					for w := 0; w < 3; w++ {
						bind := gen.CanonEnv(env)
						bind["i"] = gen.Realise(iv, c.Rand(idx, uint64(w)), gen.Rep{Widths: true, Unsigned: true, Named: true}, false)
						if modelCompare(c, e, m, prog, env, bind, gen.DefaultStyle, "index-grid-width", "an index is a number: its integer width or named type must not matter") {
							c.Obs("index_grid_width_cases", 1)
							c.Distinct("gridw", src, gen.DescribeEnv(bind))
						}
					}
					exp, st := m.Render(prog, env)
					if st == ref.OK {
						expectOut(c, e, "{% assign j = i | divided_by: 1 %}<{{ a[j] }}>|{% assign k = i | times: 2 | divided_by: 2 %}<{{ a[k] }}>", gen.CanonEnv(env), exp+"|"+exp, "index-grid-computed", "an index computed by a numeric filter indexes like the number it is", nil)
					}
				}
			}
		}
	}
	// ---- (1) lookup chains, also strict ------------------------------------------------------
	n := c.Pick(40000, 800000)
	for i := 0; i < n; i++ {
		if !c.Mine(i) {
			continue
		}
		r := c.Rand(i, 8)
		env := deepEnv(r)
		ex := lookupChain(r, 5)
		prog := []gen.Node{gen.Text{S: "<"}, gen.Out{E: ex}, gen.Text{S: ">"}}
		src := gen.DefaultStyle.Source(prog)
		if !c.Begin("lookup:" + src + " env=" + env.String()) {
			continue
		}
		eng, mod, key := e, m, "lookup"
		if i%4 == 3 {
			eng, mod, key = strict, ms, "lookup-strict"
		}
		var bind map[string]any
		if i%3 == 1 {
			// the same chain through Drops, pointers and typed containers at any depth of the bindings
			bind = gen.RealiseEnv(env, c.Rand(i, 88), gen.Rep{Drops: true, Pointers: true, Typed: true})
			key += "-representations"
		}
		if modelCompare(c, eng, mod, prog, env, bind, gen.DefaultStyle, key, "a variable/property/index lookup chain differs from the statement (or strict mode does not report exactly the nil final values)") {
			c.Obs("lookup_cases", 1)
			c.Distinct("lookup", src, env.String())
			if i%9001 == 1 {
				c.Sample(map[string]any{"source": src, "bindings": core.Trunc(env.String(), 300)})
			}
		}
	}
	// ---- literals denote themselves --------------------------------------------------------------
	for _, u := range plainU() {
		idx++
		if u.Lit == "" || !c.Mine(idx) || !c.Begin("literal:"+u.Lit) {
			continue
		}
		want, ok := gen.Print(u.V)
		if !ok {
			continue
		}
		expectOut(c, e, "{{ "+u.Lit+" }}", nil, want, "literal", "a literal must denote itself", nil)
		c.Distinct("lit", u.Lit)
	}
	// ---- string literals that differ only in their internal whitespace, in one process -----------------
	wsLits := []string{"a b", "a  b", "a\tb", "a\nb", " a b", "a b ", "a   b", "a \t b", "ab", "a\r\nb"}
	if c.Shard == 0 && c.Begin("literal-whitespace family") {
		for round := 0; round < 2; round++ {
			for _, l := range wsLits {
				expectOut(c, e, "{{ \""+l+"\" }}", nil, l, "literal-whitespace", "a string literal must denote itself, whitespace inside it included", nil)
				expectOut(c, e, "{{ 'x' | append: '"+l+"' }}", nil, "x"+l, "literal-whitespace-arg", "a string literal used as filter argument must denote itself", nil)
				expectOut(c, e, "{{ h[\""+l+"\"] }}", map[string]any{"h": map[string]any{l: "v:" + l}}, "v:"+l, "literal-whitespace-key", "a string literal used as a key must denote itself", nil)
				expectOut(c, e, "{% if \""+l+"\" == s %}same{% else %}different{% endif %}", map[string]any{"s": l}, "same", "literal-whitespace-compare", "a string literal must denote itself in a comparison", nil)
				c.Distinct("wslit", l)
			}
		}
	}
	// ---- numeric literals are decimal however they are spelled; string literals have no escapes ----------------
	if c.Shard == 1%c.NShards && c.Begin("literal-spelling family") {
		arr := make([]any, 20)
		for i := range arr {
			arr[i] = fmt.Sprintf("e%d", i)
		}
		for _, n := range []int64{0, 1, 7, 8, 9, 10, 17, 19, 64, 89, 100, 777, 1234567} {
			for z := 0; z <= 3; z++ {
				for _, neg := range []bool{false, true} {
					if neg && n == 0 {
						continue // -0: the sign of zero is not stated
					}
					lit, val := strings.Repeat("0", z)+fmt.Sprint(n), n
					if neg {
						lit, val = "-"+lit, -n
					}
					what := "an integer literal denotes its decimal value, leading zeros or not"
					expectOut(c, e, "{{ "+lit+" }}", nil, fmt.Sprint(val), "literal-int-spelling", what, nil)
					expectOut(c, e, "{{ 1 | plus: "+lit+" }}|{% assign v = "+lit+" %}{{ v }}", nil, fmt.Sprintf("%d|%d", val+1, val), "literal-int-spelling-arg", what, nil)
					expectOut(c, e, "{% if "+lit+" == n %}same{% else %}different{% endif %}", map[string]any{"n": val}, "same", "literal-int-spelling-compare", what, nil)
					if val >= 0 && val < 20 {
						expectOut(c, e, "{{ a["+lit+"] }}|{% for i in ("+lit+".."+lit+") %}{{ i }}{% endfor %}", map[string]any{"a": arr}, fmt.Sprintf("e%d|%d", val, val), "literal-int-spelling-index", what, nil)
					}
					// floats
					for _, frac := range []string{"5", "50", "25", "0"} {
						fl := lit + "." + frac
						f, _ := strconv.ParseFloat(fl, 64)
						if f == 0 && neg {
							continue
						}
						// a whole value is spelled as its digits; how any other value is spelled (1.2345675e+06 or 1234567.5) is not
						// stated: it must denote the same number
						if f == math.Trunc(f) {
							expectOut(c, e, "{{ "+fl+" }}", nil, gen.FormatFloat(f), "literal-float-spelling", "a float literal denotes its decimal value", nil)
						} else if r := core.Run(e, "{{ "+fl+" }}", nil); true {
							c.Eval(1)
							if g, err := strconv.ParseFloat(r.Out, 64); !r.OK() || err != nil || g != f {
								c.Violate("literal-float-spelling|"+resClass(r), "a float literal denotes its decimal value", map[string]any{"source": "{{ " + fl + " }}", "expected_value": f, "observed": r.Brief()})
							}
						}
					}
					c.Distinct("intlit", lit)
					c.Obs("literal_spelling_cases", 1)
				}
			}
		}
		for _, l := range []string{`a\b`, `a\tb`, `a\n`, `\\`, `\`, `c:\dir\`, `\x41`, `\u00e9`, `100%`, `a\'b`, `{`, `}`, `%`, `a|b`, `a:b,c`} {
			for _, q := range []string{"\"", "'"} {
				if strings.Contains(l, q) {
					continue
				}
				what := "a string literal denotes exactly the characters between its quotes (Liquid has no escape sequences)"
				expectOut(c, e, "{{ "+q+l+q+" }}", nil, l, "literal-string-spelling", what, nil)
				expectOut(c, e, "{{ 'x' | append: "+q+l+q+" | size }}|{% if "+q+l+q+" == s %}same{% else %}different{% endif %}", map[string]any{"s": l}, fmt.Sprintf("%d|same", 1+ref.RuneLen(l)), "literal-string-spelling-arg", what, nil)
				c.Distinct("strlit", q+l)
				c.Obs("literal_spelling_cases", 1)
			}
		}
	}
	// ---- the dot and the bracket spelling of a key agree, whatever Go type the map's keys and the key have ---------------
	if c.Shard == 7%c.NShards && c.Begin("key-spellings over key types") {
		maps := map[string]any{"string keys": map[string]any{"k": "v1", "size": "s1", "a b": "v2"}, "typed values": map[string]string{"k": "v1", "size": "s1", "a b": "v2"},
			"named string keys": map[gen.NTitle]any{"k": "v1", "size": "s1", "a b": "v2"}, "named keys and values": map[gen.NTitle]gen.NTitle{"k": "v1", "size": "s1", "a b": "v2"},
			"interface keys": map[any]any{"k": "v1", "size": "s1", "a b": "v2", 1: "one"}, "named map type": gen.NDict{"k": "v1", "size": "s1", "a b": "v2"},
			"ordered map": yaml.MapSlice{{Key: "k", Value: "v1"}, {Key: "size", Value: "s1"}, {Key: "a b", Value: "v2"}}, "drop of map": gen.DropV{X: map[string]any{"k": "v1", "size": "s1", "a b": "v2"}},
			"pointer to map": &map[string]any{"k": "v1", "size": "s1", "a b": "v2"}}
		for name, mv := range maps {
			for _, key := range []any{"k", gen.NTitle("k")} {
				if _, isNamed := key.(gen.NTitle); isNamed && (name == "interface keys" || name == "ordered map") {
					continue // an interface-keyed map holds the string "k": whether a key of another Go type finds it is not stated
				}
				b := map[string]any{"m": mv, "h": map[string]any{"m": mv}, "key": key, "sp": "a b"}
				expectOut(c, e, "{{ m.k }}|{{ m['k'] }}|{{ m[\"k\"] }}|{{ m[key] }}|{{ h.m.k }}|{{ h.m[key] }}|{{ m['a b'] }}|{{ m[sp] }}|{{ m.size }}|{{ m['size'] }}|{{ m.zz }}{{ m['zz'] }}", b,
					"v1|v1|v1|v1|v1|v1|v2|v2|s1|s1|", "key-spellings", "m.k, m['k'] and m[key] name the same entry, whatever the Go types of the map's keys and of the key are", map[string]any{"map": name})
				c.Obs("key_spelling_cases", 1)
				c.Distinct("keyspell", name, fmt.Sprint(key))
			}
		}
	}
	// ---- indices beyond every array: huge unsigned and signed values index nothing; assigning nil really assigns -------------------
	if c.Shard == 14%c.NShards && c.Begin("extreme indices and nil assignments") {
		arr := []any{"e0", "e1", "e2"}
		for _, ix := range []any{uint64(math.MaxUint64), uint64(math.MaxUint64) - 1, uint64(math.MaxUint64) - 2, uint64(1) << 63, uint(math.MaxUint), int64(math.MaxInt64), int64(math.MinInt64), uintptr(math.MaxUint64), uint32(math.MaxUint32), int64(1) << 32, -(int64(1) << 32)} {
			expectOut(c, e, "[{{ a[i] }}]", map[string]any{"a": arr, "i": ix}, "[]", "index-extreme", "an index that is out of range yields nil, however large it is and whatever integer type carries it", nil)
			r := core.Run(strict, "[{{ a[i] }}]", map[string]any{"a": arr, "i": ix})
			c.Eval(1)
			if !r.Failed() {
				c.Violate("index-extreme|strict|"+resClass(r), "in strict-variables mode an out-of-range index (nil final value) is an error", map[string]any{"index": gen.Describe(ix), "observed": r.Brief()})
			}
			c.Obs("extreme_index_cases", 1)
			c.Distinct("idxext", gen.Describe(ix))
		}
		for _, cs := range []struct{ src, want string }{
			{"{% assign t = m.missing %}[{{ t }}][{{ t | default: 'd' }}]", "[][d]"}, {"{% assign t = nothing %}[{{ t }}]{% if t == nil %}nil{% endif %}", "[]nil"},
			{"{% assign t = a[9] %}[{{ t }}]{% assign u = 'x' %}{% assign u = a[9] %}[{{ u }}]", "[][]"}, {"{% assign t = nil %}[{{ t }}]{% assign s = nothing | default: nil %}[{{ s }}]", "[][]"},
			{"{% for i in (1..2) %}{% assign t = i %}{% assign t = m.missing %}[{{ t }}]{% endfor %}", "[][]"}} {
			expectOut(c, e, cs.src, map[string]any{"t": "stale", "s": "stale", "m": map[string]any{"k": 1}, "a": arr, "nothing": nil}, cs.want, "assign-nil", "assign binds exactly the value of its right-hand side, nil included: the earlier value of the name is gone", nil)
			c.Obs("assign_nil_cases", 1)
			c.Distinct("assignnil", cs.src)
		}
	}
	// ---- whitespace between the smallest parts: filter name and colon, object and dot, brackets and index ---------------------
	// (the first three are known findings on the pinned tree, see known_findings.txt: the lexer makes "name:" and ".name" one token)
	if c.Shard == 12%c.NShards && c.Begin("whitespace between the smallest parts") {
		b := map[string]any{"a": []any{10, 20, 30}, "m": map[string]any{"k": "v", "A": "x", "1": "one"}, "s": "x", "u8": uint8(65), "u16": uint16(65), "u64": uint64(65), "up": uintptr(65), "nu": gen.NUint(65), "i8": int8(65)}
		for _, cs := range []struct{ id, src, want string }{
			{"filter-colon", "{{ s | append : \"a\" }}", "xa"}, {"dot-after-space", "{{ a . size }}", "3"}, {"dot-then-space", "{{ a. size }}", "3"},
			{"dot-before-space", "{{ a .size }}|{{ m .k }}", "3|v"}, {"brackets", "{{ a[ 1 ] }}|{{ a [1] }}|{{ m[ 'k' ] }}|{{ a[\n-1\n] }}", "20|20|v|30"}, {"filter-args", "{{ s|append:\"a\"|append:\t\"b\" |\tappend:  \"c\" }}", "xabc"},
			{"pipes-and-commas", "{{ s\n|\nreplace:\n\"x\"\n,\n\"y\"\n|\nupcase }}", "Y"}, {"range-dots", "{% for i in ( 1 .. 3 ) %}{{ i }}{% endfor %}|{% for i in (1..3)%}{{i}}{%endfor%}", "123|123"},
			{"number-keys-are-missing-keys", "[{{ m[65] }}][{{ m[1] }}][{{ m[true] }}][{{ m[1.0] }}]", "[][][][]"},
			{"unsigned-number-keys-are-missing-keys", "[{{ m[u8] }}][{{ m[u16] }}][{{ m[u64] }}][{{ m[up] }}][{{ m[nu] }}][{{ m[i8] }}]", "[][][][][][]"}} {
			expectOut(c, e, cs.src, b, cs.want, "whitespace-in-parts|"+cs.id, "whitespace between the parts of an object never changes its meaning (and an index that is not a key of the map yields nil)", nil)
			c.Obs("smallest_parts_cases", 1)
			c.Distinct("smallparts", cs.id)
		}
	}
	// ---- a real "size" key, also when it is bound to nil ---------------------------------------------
	for i, mv := range []gen.V{gen.Map(gen.KV{K: "size", V: gen.Nil}), gen.Map(gen.KV{K: "size", V: gen.Nil}, gen.KV{K: "a", V: gen.Int(1)}),
		gen.Map(gen.KV{K: "size", V: gen.Bool(false)}), gen.Map(gen.KV{K: "size", V: gen.Str("")}), gen.Map(gen.KV{K: "a", V: gen.Nil}), gen.Map()} {
		for j, ex := range []gen.Expr{gen.Prop{X: gen.Var{Name: "m"}, Name: "size"}, gen.Prop{X: gen.Prop{X: gen.Var{Name: "o"}, Name: "m"}, Name: "size"},
			gen.Prop{X: gen.Index{X: gen.Var{Name: "l"}, I: gen.Lit{V: gen.Int(0)}}, Name: "size"}, gen.Prop{X: gen.Var{Name: "m"}, Name: "a"}} {
			idx++
			if !c.Mine(idx) {
				continue
			}
			env := gen.Env{{K: "m", V: mv}, {K: "o", V: gen.Map(gen.KV{K: "m", V: mv})}, {K: "l", V: gen.Arr(mv)}}
			for _, strictMode := range []bool{false, true} {
				prog := []gen.Node{gen.Text{S: "<"}, gen.Out{E: ex}, gen.Text{S: ">"}, gen.If{Conds: []gen.Expr{ex}, Bodies: [][]gen.Node{{gen.Text{S: "truthy"}}}, HasElse: true, Else: []gen.Node{gen.Text{S: "falsy"}}}}
				src := gen.DefaultStyle.Source(prog)
				if !c.Begin(fmt.Sprintf("size-key:%s env=%s strict=%v", src, env.String(), strictMode)) {
					continue
				}
				eng, mod := e, m
				if strictMode {
					eng, mod = strict, ms
				}
				if modelCompare(c, eng, mod, prog, env, nil, gen.DefaultStyle, "size-key", "a.size must be the entry count only when the map has no such key (a key bound to nil is still a key)") {
					c.Obs("size_key_cases", 1)
					c.Distinct("sizekey", fmt.Sprint(i, j, strictMode))
				}
			}
		}
	}
	// ---- a name denotes its CURRENT binding: loops and assigns that re-bind a name to one Drop after another ----
	for i := 0; i < c.Pick(400, 8000); i++ {
		idx++
		if !c.Mine(idx) {
			continue
		}
		r := c.Rand(idx, 81)
		n := r.Range(2, 5)
		items := make([]gen.V, n)
		for j := range items {
			items[j] = gen.Map(gen.KV{K: "name", V: gen.Str(fmt.Sprintf("item%d", r.Intn(50)))}, gen.KV{K: "price", V: gen.Int(int64(r.Range(0, 9)))})
		}
		scal := make([]gen.V, n)
		for j := range scal {
			scal[j] = gen.Int(int64(r.Range(0, 99)))
		}
		env := gen.Env{{K: "items", V: gen.Arr(items...)}, {K: "nums", V: gen.Arr(scal...)}, {K: "d1", V: gen.Str("first")}, {K: "d2", V: gen.Str("second")}}
		fl := gen.For{Var: "p", Coll: gen.Var{Name: "items"}, Body: []gen.Node{gen.Out{E: gen.Prop{X: gen.Var{Name: "p"}, Name: "name"}}, gen.Text{S: ":"},
			gen.If{Conds: []gen.Expr{gen.Cmp{Op: ">", A: gen.Prop{X: gen.Var{Name: "p"}, Name: "price"}, B: intLit(4)}}, Bodies: [][]gen.Node{{gen.Text{S: "hi"}}}, HasElse: true, Else: []gen.Node{gen.Text{S: "lo"}}}, gen.Text{S: ";"}}}
		prog := []gen.Node{fl, gen.For{Var: "x", Coll: gen.Var{Name: "nums"}, Body: []gen.Node{gen.Out{E: gen.Var{Name: "x"}}, gen.Out{E: gen.Filt{X: gen.Var{Name: "x"}, Name: "plus", Args: []gen.Expr{intLit(1)}}}, gen.Text{S: ","}}},
			gen.Assign{Name: "v", E: gen.Var{Name: "d1"}}, gen.Out{E: gen.Var{Name: "v"}}, gen.Assign{Name: "v", E: gen.Var{Name: "d2"}}, gen.Out{E: gen.Var{Name: "v"}}, gen.Out{E: gen.Filt{X: gen.Var{Name: "v"}, Name: "upcase"}}}
		src := gen.DefaultStyle.Source(prog)
		bind := gen.RealiseEnv(env, r, gen.Rep{Drops: true})
		if !c.Begin("rebinding:" + src + " bindings=" + gen.DescribeEnv(bind)) {
			continue
		}
		if modelCompare(c, e, m, prog, env, bind, gen.DefaultStyle, "rebinding", "a name re-bound within one render (loop variable, assign) did not denote its current binding") {
			c.Obs("rebinding_cases", 1)
			c.Distinct("rebind", src, gen.DescribeEnv(bind))
		}
	}
	// ---- (2) pipelines vs assign decomposition, (4) whitespace variants ------------------------------
	n2 := c.Pick(40000, 800000)
	for i := 0; i < n2; i++ {
		if !c.Mine(i) {
			continue
		}
		r := c.Rand(i, 9)
		env := gen.StdEnv(r)
		b := gen.CanonEnv(env)
		f := gen.Features{Filters: true, AllFilters: true, Errors: true, Loops: true, Assign: true, Case: true, Capture: true, Tablerow: true, Cycle: true, MaxNodes: 6, NestedArgs: true}
		g := gen.NewG(r, f, env)
		if i%2 == 0 {
			ex := g.Value(0)
			fe, isF := ex.(gen.Filt)
			if !isF {
				continue
			}
			// decompose the pipeline into assign steps
			var steps []gen.Filt
			var base gen.Expr = fe
			for {
				ff, ok := base.(gen.Filt)
				if !ok {
					break
				}
				steps = append([]gen.Filt{ff}, steps...)
				base = ff.X
			}
			var sb strings.Builder
			st := gen.DefaultStyle
			prev := st.ExprSource(base)
			for k, s := range steps {
				s.X = gen.Var{Name: "placeholder"}
				stepSrc := strings.Replace(st.ExprSource(s), "placeholder", prev, 1)
				name := fmt.Sprintf("vt%d", k)
				sb.WriteString("{% assign " + name + " = " + stepSrc + " %}")
				prev = name
			}
			sb.WriteString("{{ " + prev + " }}")
			direct := "{{ " + st.ExprSource(ex) + " }}"
			if !c.Begin("pipeline:" + direct + " env=" + env.String()) {
				continue
			}
			r1 := core.Run(e, direct, b)
			r2 := core.Run(e, sb.String(), b)
			c.Eval(2)
			c.Obs("pipeline_cases", 1)
			c.Distinct("pipe", direct, env.String())
			if r1.Panic != "" || !(r1.OK() && r2.OK() && r1.Out == r2.Out || r1.Failed() && r2.Failed()) {
				c.Violate("pipeline-vs-assign|"+resClass(r1), "a filter pipeline does not behave like doing its steps one at a time through assign",
					map[string]any{"pipeline": direct, "decomposed": sb.String(), "bindings": env.String(), "pipeline_result": r1.Brief(), "decomposed_result": r2.Brief()})
			}
			// parentheses group, they do not change the value: the pipeline in parentheses, printed and handed on to assign
			grouped := "{{ (" + st.ExprSource(ex) + ") }}"
			groupedAssign := "{% assign vg = (" + st.ExprSource(ex) + ") %}{{ vg }}"
			r3, r4 := core.Run(e, grouped, b), core.Run(e, groupedAssign, b)
			c.Eval(2)
			for _, rg := range []core.Res{r3, r4} {
				if rg.Panic != "" || !(r1.OK() && rg.OK() && r1.Out == rg.Out || r1.Failed() && rg.Failed()) {
					c.Violate("pipeline-in-parentheses|"+resClass(rg), "a filter pipeline written in parentheses does not have the value it has without them",
						map[string]any{"pipeline": direct, "grouped": grouped, "grouped_assign": groupedAssign, "bindings": env.String(), "pipeline_result": r1.Brief(), "grouped_result": rg.Brief()})
					break
				}
			}
			continue
		}
		prog := g.Program()
		base := gen.DefaultStyle.Source(prog)
		if !c.Begin("whitespace:" + base + " env=" + env.String()) {
			continue
		}
		r0 := core.Run(e, base, b)
		c.Eval(1)
		for ws := 1; ws <= 5; ws++ {
			st := gen.DefaultStyle
			st.WS = ws
			st.R = c.Rand(i, uint64(ws))
			src := st.Source(prog)
			rv := core.Run(e, src, b)
			c.Eval(1)
			c.Obs("whitespace_variants", 1)
			same := r0.OK() && rv.OK() && r0.Out == rv.Out || r0.Failed() && rv.Failed()
			if !same || rv.Panic != "" {
				c.Violate(fmt.Sprintf("whitespace|style%d|%s", ws, resClass(rv)), "whitespace (including newlines) between the parts of a tag or object changed its meaning",
					map[string]any{"single_spaces": base, "variant": src, "bindings": env.String(), "single_spaces_result": r0.Brief(), "variant_result": rv.Brief()})
				break
			}
		}
		c.Distinct("ws", base, env.String())
	}
	// ---- (3) arity and unknown filters ----------------------------------------------------------------
	reg, _, _ := engineNames(e)
	for _, name := range reg {
		idx++
		if !c.Mine(idx) || !c.Begin("arity:"+name) {
			continue
		}
		ar := filterArity(e, name)
		if ar < 0 || filterVariadic(e, name) {
			continue // not readable, or a filter that takes any number of arguments: no call has more than it takes
		}
		for _, recv := range []string{"'x'", "1", "arr"} {
			args := make([]string, ar+1)
			for i := range args {
				args[i] = []string{"1", "'a'", "n"}[i%3]
			}
			src := "{{ " + recv + " | " + name + ": " + strings.Join(args, ", ") + " }}"
			res := core.Run(e, src, map[string]any{"arr": []any{1, 2}, "n": 2})
			c.Eval(1)
			c.Obs("arity_cases", 1)
			c.Distinct("arity", src)
			if !res.Failed() {
				c.Violate("arity|"+name, "more arguments than the filter takes must be an error", map[string]any{"source": src, "declared_parameters": ar, "observed": res.Brief()})
			}
		}
	}
	for i, name := range []string{"no_such_filter", "upcas", "Upcase", "plus1", "_", "x-y", "sizee"} {
		idx++
		if !c.Mine(idx) || !c.Begin("unknown-filter:"+name) {
			continue
		}
		for _, src := range []string{"{{ 'x' | " + name + " }}", "{{ 'x' | upcase | " + name + ": 1 }}", "{% assign v = 1 | " + name + " %}", "{% if 1 | " + name + " %}{% endif %}"} {
			res := core.Run(e, src, nil)
			c.Eval(1)
			c.Obs("unknown_filter_cases", 1)
			c.Distinct("unknown", src)
			if !res.Failed() {
				c.Violate("unknown-filter", "an unknown filter must be an error", map[string]any{"source": src, "observed": res.Brief()})
			}
		}
		_ = i
	}
}
