package gen

import (
	"strings"
	"unicode/utf8"

	"verif/harness/core"
)

// RandLen draws a length: mostly short, sometimes a few KiB, rarely 64 KiB.
func RandLen(r *core.Rand) int {
	switch x := r.Intn(1000); {
	case x < 700:
		return r.Intn(64)
	case x < 950:
		return r.Intn(600)
	case x < 995:
		return r.Intn(8 << 10)
	default:
		return 60<<10 + r.Intn(4<<10)
	}
}

// RandBytes returns n arbitrary bytes (not necessarily UTF-8).
func RandBytes(r *core.Rand, n int) string {
	b := make([]byte, n)
	for i := 0; i < n; i += 8 {
		x := r.U64()
		for j := 0; j < 8 && i+j < n; j++ {
			b[i+j] = byte(x >> (8 * j))
		}
	}
	return string(b)
}

var specialRunes = []rune{0, '\r', '\n', '\t', ' ', 0x2028, 0xFEFF, 0x85, 0xA0, 'é', '日', '𝄞', '{', '}', '%', '-', '"', '\'', '|', 'a', 'Z', '0', '<', '&', 0x10FFFF, 0x7f}

// RandUTF8 returns about n bytes of valid UTF-8 biased to awkward runes.
func RandUTF8(r *core.Rand, n int) string {
	var sb strings.Builder
	for sb.Len() < n {
		if r.P(2, 3) {
			sb.WriteRune(specialRunes[r.Intn(len(specialRunes))])
		} else {
			c := rune(r.Intn(0x11000))
			if !utf8.ValidRune(c) {
				c = 'x'
			}
			sb.WriteRune(c)
		}
	}
	return sb.String()
}

// DelimAlphabet is the alphabet hostile template sources are drawn from.
var DelimAlphabet = []string{"{", "}", "%", "-", "\"", "'", "\\", "|", ":", ".", "[", "]", "(", ")", " ", "\n", "a", "1", ",", "=", "{{", "}}", "{%", "%}", "if", "for", "end", "x"}

// RandDelimString draws n symbols from DelimAlphabet.
func RandDelimString(r *core.Rand, n int) string {
	var sb strings.Builder
	for i := 0; i < n; i++ {
		sb.WriteString(DelimAlphabet[r.Intn(len(DelimAlphabet))])
	}
	return sb.String()
}

// NoOpen rewrites s so that neither "{{" nor "{%" occurs (for plain-text laws).
func NoOpen(s string) string {
	for strings.Contains(s, "{{") || strings.Contains(s, "{%") {
		s = strings.ReplaceAll(s, "{{", "{ {")
		s = strings.ReplaceAll(s, "{%", "{ %")
	}
	return s
}

// RandLiteralBody returns the body of a string literal quoted with q: arbitrary awkward text that does not
// contain q, a line break or a delimiter — backslashes (also as the last character), escapes that Liquid does
// not have, the other quote, NUL, multi-byte characters.
func RandLiteralBody(r *core.Rand, q byte) string {
	bits := []string{"\\", "\\n", "\\t", "\\x41", "\\u00e9", "\\\\", "a", "Z", " ", "0", "é", "𝄞", "\x00", "\t", "|", ":", ",", ".", "[", "(", "-", "%", "{", "}", "\"", "'", "\\'", "\\\""}
	var sb strings.Builder
	for n := r.Intn(7); n > 0; n-- {
		b := bits[r.Intn(len(bits))]
		if strings.IndexByte(b, q) >= 0 {
			continue
		}
		sb.WriteString(b)
	}
	if r.P(1, 3) {
		sb.WriteString("\\")
	}
	s := sb.String()
	for _, d := range []string{"{{", "}}", "{%", "%}"} {
		s = strings.ReplaceAll(s, d, d[:1]+" "+d[1:])
	}
	return s
}
