#!/bin/bash
# (SEED_FAST=1, the default here, skips re-confirming each change: suite and demo runs; SEED_FAST=0 does everything)
# Re-evaluates every stored seeded change against the check(s) recorded as catching it (quick tier) and
# prints a summary. Applies each patch to /repo and undoes it; /repo must be clean and otherwise unused.
cd /verif
fail=0
for d in seeded/*/; do
  id=$(basename $d)
  if python3 -c "import json,sys;sys.exit(0 if json.load(open('$d/meta.json')).get('retired') else 1)"; then echo "$id: retired (the repaired tree no longer has the mechanism)"; continue; fi
  checks=$(python3 -c "import json;m=json.load(open('$d/meta.json'));print(' '.join(m.get('detected_by') or [m['property']]))")
  out=$(SEED_FAST=${SEED_FAST:-1} ./seedeval.py $d $id $checks 2>&1 | tail -1)
  echo "$out"
  case "$out" in *"confirmed=True detected_by=['"*) ;; *) fail=$((fail+1));; esac
done
echo "seeded changes not detected: $fail"
