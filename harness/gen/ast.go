package gen

import (
	"strconv"
	"strings"

	"verif/harness/core"
)

// ---- expressions -----------------------------------------------------------

type Expr interface{ isExpr() }

type Lit struct{ V V }                  // nil, true/false, int, float, string
type Var struct{ Name string }          // x
type Prop struct {                      // x.name or x["name"]
	X       Expr
	Name    string
	Bracket bool
}
type Index struct{ X, I Expr }          // x[i]
type RangeE struct{ A, B Expr }         // (a..b)
type Cmp struct {                       // a OP b ; OP in == != < > <= >= contains
	Op   string
	A, B Expr
}
type Logic struct { // a and b / a or b
	Op   string
	A, B Expr
}
type Filt struct { // x | name: args
	X    Expr
	Name string
	Args []Expr
}

func (Lit) isExpr()    {}
func (Var) isExpr()    {}
func (Prop) isExpr()   {}
func (Index) isExpr()  {}
func (RangeE) isExpr() {}
func (Cmp) isExpr()    {}
func (Logic) isExpr()  {}
func (Filt) isExpr()   {}

// ---- template nodes --------------------------------------------------------

type Node interface{ isNode() }

// Trim says whether the left / right delimiter of one tag or object carries a hyphen.
type Trim struct{ L, R bool }

type Text struct{ S string }
type Out struct {
	E Expr
	T Trim
}
type Assign struct {
	Name string
	E    Expr
	T    Trim
}
type Capture struct {
	Name string
	Body []Node
	T    [2]Trim // capture, endcapture
}
type If struct {
	Unless  bool
	Conds   []Expr   // Conds[0] is the if/unless condition, the rest are elsif
	Bodies  [][]Node // len == len(Conds)
	HasElse bool
	Else    []Node
	T       []Trim // one per tag in source order: if, elsif..., else?, endif (nil = none)
}
type Case struct {
	Subj       Expr
	Whens      [][]Expr
	Bodies     [][]Node
	HasElse    bool
	Else       []Node
	ElseBefore int    // the else clause is written before the last ElseBefore when clauses (0: at the end); it is the fallback wherever it stands
	T          []Trim // case, then the clauses in source order, endcase
}
type For struct {
	Tablerow bool
	Var      string
	Coll     Expr
	Reversed bool
	Offset   Expr // nil = absent
	Limit    Expr
	Cols     Expr
	ModOrder int // the order in which the modifiers are written (0: reversed offset limit cols); what they select does not depend on it
	Body     []Node
	HasElse  bool
	Else     []Node
	T        []Trim // for, else?, endfor
}
type Break struct{ T Trim }
type Continue struct{ T Trim }
type Cycle struct {
	Group    string
	HasGroup bool
	Vals     []string
	T        Trim
}
type Include struct {
	E Expr
	T Trim
}
type Raw struct {
	S string
	T [2]Trim
}
type Comment struct {
	S string
	T [2]Trim
}

// PlainTag is a user tag without arguments meaning (e.g. a probe registered by the harness).
type PlainTag struct {
	Name string
	Args string
	T    Trim
}

func (Text) isNode()     {}
func (Out) isNode()      {}
func (Assign) isNode()   {}
func (Capture) isNode()  {}
func (If) isNode()       {}
func (Case) isNode()     {}
func (For) isNode()      {}
func (Break) isNode()    {}
func (Continue) isNode() {}
func (Cycle) isNode()    {}
func (Include) isNode()  {}
func (Raw) isNode()      {}
func (Comment) isNode()  {}
func (PlainTag) isNode() {}

// ---- printer ---------------------------------------------------------------

// Style controls spelling choices that must not change meaning.
type Style struct {
	R      *core.Rand // nil = canonical single-space style
	Delims [4]string
	NoTrim bool // drop every hyphen
	WS     int  // 0 single spaces; 1 none where legal; 2 tabs; 3 newlines; 4 CRLF; 5 mixed (needs R)
}

// DefaultStyle prints with default delimiters and single spaces.
var DefaultStyle = Style{Delims: [4]string{"{{", "}}", "{%", "%}"}}

func (st Style) gap(required bool) string {
	switch st.WS {
	case 1:
		if required {
			return " "
		}
		return ""
	case 2:
		return "\t"
	case 3:
		return "\n"
	case 4:
		return "\r\n"
	case 5:
		if st.R != nil {
			return []string{" ", "  ", "\t", "\n", " \n ", "\r\n"}[st.R.Intn(6)]
		}
	}
	return " "
}

func (st Style) quote(s string) (string, bool) {
	dq, sq := !strings.Contains(s, `"`), !strings.Contains(s, `'`)
	switch {
	case dq && sq:
		if st.R != nil && st.R.Bool() {
			return "'" + s + "'", true
		}
		return `"` + s + `"`, true
	case dq:
		return `"` + s + `"`, true
	case sq:
		return "'" + s + "'", true
	}
	return "", false
}

// LitSource spells a literal; ok=false if the value has no literal spelling.
func (st Style) LitSource(v V) (string, bool) {
	switch v.K {
	case KNil:
		return "nil", true
	case KBool:
		return strconv.FormatBool(v.B), true
	case KInt:
		return strconv.FormatInt(v.I, 10), true
	case KFloat:
		s := strconv.FormatFloat(v.F, 'f', -1, 64)
		if !strings.Contains(s, ".") {
			s += ".0"
		}
		if len(s) > 30 {
			return "", false
		}
		return s, true
	case KStr:
		return st.quote(v.S)
	}
	return "", false
}

func isIdent(s string) bool {
	if s == "" {
		return false
	}
	for i, c := range s {
		if !(c == '_' || c >= 'a' && c <= 'z' || c >= 'A' && c <= 'Z' || i > 0 && c >= '0' && c <= '9') {
			return false
		}
	}
	switch s {
	case "true", "false", "nil", "and", "or", "contains", "in":
		return false
	}
	return true
}

// ExprSource prints an expression. Filter pipelines are only legal at the top
// level of an object/assign/condition operand position that accepts them.
func (st Style) ExprSource(e Expr) string {
	switch e := e.(type) {
	case Lit:
		s, ok := st.LitSource(e.V)
		if !ok {
			return "nil"
		}
		return s
	case Var:
		return e.Name
	case Prop:
		x := st.ExprSource(e.X)
		if e.Bracket || !isIdent(e.Name) {
			q, ok := st.quote(e.Name)
			if !ok {
				q = `""`
			}
			return x + "[" + q + "]"
		}
		return x + "." + e.Name
	case Index:
		return st.ExprSource(e.X) + "[" + st.ExprSource(e.I) + "]"
	case RangeE:
		return "(" + st.ExprSource(e.A) + ".." + st.ExprSource(e.B) + ")"
	case Cmp:
		return st.operand(e.A) + st.gap(true) + e.Op + st.gap(true) + st.operand(e.B)
	case Logic:
		a := st.ExprSource(e.A)
		if la, ok := e.A.(Logic); ok && la.Op != e.Op {
			a = "(" + a + ")"
		}
		b := st.ExprSource(e.B)
		if _, ok := e.B.(Logic); ok {
			b = "(" + b + ")"
		}
		return a + st.gap(true) + e.Op + st.gap(true) + b
	case Filt:
		s := st.ExprSource(e.X)
		if _, ok := e.X.(Cmp); ok {
			s = "(" + s + ")"
		}
		if _, ok := e.X.(Logic); ok {
			s = "(" + s + ")"
		}
		s += st.gap(false) + "|" + st.gap(false) + e.Name
		for i, a := range e.Args {
			if i == 0 {
				s += ":" + st.gap(false)
			} else {
				s += st.gap(false) + "," + st.gap(false)
			}
			s += st.operand(a)
		}
		return s
	}
	return "nil"
}

// operand prints e where the grammar wants a primary expression.
func (st Style) operand(e Expr) string {
	switch e.(type) {
	case Cmp, Logic, Filt:
		return "(" + st.ExprSource(e) + ")"
	}
	return st.ExprSource(e)
}

func (st Style) tag(t Trim, body string) string {
	l, r := st.Delims[2], st.Delims[3]
	if t.L && !st.NoTrim {
		l += "-"
	}
	if t.R && !st.NoTrim {
		r = "-" + r
	}
	return l + st.pad(body, true) + body + st.pad(body, false) + r
}

// pad is the gap between a delimiter and the body; a body that begins or ends
// with a hyphen must be kept apart from the delimiter (else it reads as a trim marker).
func (st Style) pad(body string, left bool) string {
	g := st.gap(false)
	if g == "" && (left && strings.HasPrefix(body, "-") || !left && strings.HasSuffix(body, "-")) {
		return " "
	}
	return g
}

func (st Style) obj(t Trim, body string) string {
	l, r := st.Delims[0], st.Delims[1]
	if t.L && !st.NoTrim {
		l += "-"
	}
	if t.R && !st.NoTrim {
		r = "-" + r
	}
	return l + st.pad(body, true) + body + st.pad(body, false) + r
}

func trimAt(ts []Trim, i int) Trim {
	if i < len(ts) {
		return ts[i]
	}
	return Trim{}
}

// Source prints a template.
func (st Style) Source(nodes []Node) string {
	var sb strings.Builder
	st.write(&sb, nodes)
	return sb.String()
}

func (st Style) write(sb *strings.Builder, nodes []Node) {
	for _, n := range nodes {
		switch n := n.(type) {
		case Text:
			sb.WriteString(n.S)
		case Out:
			sb.WriteString(st.obj(n.T, st.ExprSource(n.E)))
		case Assign:
			sb.WriteString(st.tag(n.T, "assign"+st.gap(true)+n.Name+st.gap(false)+"="+st.gap(false)+st.ExprSource(n.E)))
		case Capture:
			sb.WriteString(st.tag(n.T[0], "capture"+st.gap(true)+n.Name))
			st.write(sb, n.Body)
			sb.WriteString(st.tag(n.T[1], "endcapture"))
		case If:
			name := "if"
			if n.Unless {
				name = "unless"
			}
			k := 0
			for i, c := range n.Conds {
				kw := name
				if i > 0 {
					kw = "elsif"
				}
				sb.WriteString(st.tag(trimAt(n.T, k), kw+st.gap(true)+st.ExprSource(c)))
				k++
				st.write(sb, n.Bodies[i])
			}
			if n.HasElse {
				sb.WriteString(st.tag(trimAt(n.T, k), "else"))
				k++
				st.write(sb, n.Else)
			}
			sb.WriteString(st.tag(trimAt(n.T, k), "end"+name))
		case Case:
			k := 0
			sb.WriteString(st.tag(trimAt(n.T, k), "case"+st.gap(true)+st.ExprSource(n.Subj)))
			k++
			elseAt := len(n.Whens) - n.ElseBefore
			writeElse := func() {
				sb.WriteString(st.tag(trimAt(n.T, k), "else"))
				k++
				st.write(sb, n.Else)
			}
			for i, w := range n.Whens {
				if n.HasElse && i == elseAt {
					writeElse()
				}
				ss := make([]string, len(w))
				for j, e := range w {
					ss[j] = st.operand(e)
				}
				sb.WriteString(st.tag(trimAt(n.T, k), "when"+st.gap(true)+strings.Join(ss, st.gap(false)+","+st.gap(false))))
				k++
				st.write(sb, n.Bodies[i])
			}
			if n.HasElse && elseAt >= len(n.Whens) {
				writeElse()
			}
			sb.WriteString(st.tag(trimAt(n.T, k), "endcase"))
		case For:
			name := "for"
			if n.Tablerow {
				name = "tablerow"
			}
			s := name + st.gap(true) + n.Var + st.gap(true) + "in" + st.gap(true) + st.ExprSource(n.Coll)
			var mods []string
			if n.Reversed {
				mods = append(mods, "reversed")
			}
			if n.Offset != nil {
				mods = append(mods, "offset:"+st.gap(false)+st.operand(n.Offset))
			}
			if n.Limit != nil {
				mods = append(mods, "limit:"+st.gap(false)+st.operand(n.Limit))
			}
			if n.Cols != nil {
				mods = append(mods, "cols:"+st.gap(false)+st.operand(n.Cols))
			}
			for i := range mods {
				// ModOrder picks a rotation, and for odd values the reversal, of the canonical order
				j := (i + n.ModOrder/2) % len(mods)
				if n.ModOrder%2 == 1 {
					j = len(mods) - 1 - j
				}
				s += st.gap(true) + mods[j]
			}
			k := 0
			sb.WriteString(st.tag(trimAt(n.T, k), s))
			k++
			st.write(sb, n.Body)
			if n.HasElse {
				sb.WriteString(st.tag(trimAt(n.T, k), "else"))
				k++
				st.write(sb, n.Else)
			}
			sb.WriteString(st.tag(trimAt(n.T, k), "end"+name))
		case Break:
			sb.WriteString(st.tag(n.T, "break"))
		case Continue:
			sb.WriteString(st.tag(n.T, "continue"))
		case Cycle:
			ss := make([]string, len(n.Vals))
			for i, v := range n.Vals {
				ss[i], _ = st.quote(v)
			}
			s := "cycle" + st.gap(true)
			if n.HasGroup {
				g, _ := st.quote(n.Group)
				s += g + ":" + st.gap(false)
			}
			sb.WriteString(st.tag(n.T, s+strings.Join(ss, ","+st.gap(false))))
		case Include:
			sb.WriteString(st.tag(n.T, "include"+st.gap(true)+st.ExprSource(n.E)))
		case Raw:
			sb.WriteString(st.tag(n.T[0], "raw"))
			sb.WriteString(n.S)
			sb.WriteString(st.tag(n.T[1], "endraw"))
		case Comment:
			sb.WriteString(st.tag(n.T[0], "comment"))
			sb.WriteString(n.S)
			sb.WriteString(st.tag(n.T[1], "endcomment"))
		case PlainTag:
			s := n.Name
			if n.Args != "" {
				s += st.gap(true) + n.Args
			}
			sb.WriteString(st.tag(n.T, s))
		}
	}
}
