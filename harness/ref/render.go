package ref

import (
	"regexp"
	"sort"
	"strings"

	"verif/harness/gen"
)

// Model is the reference renderer over the generator's AST. It implements
// what the property statements say and answers Unsp wherever they are silent.
type Model struct {
	Files     map[string][]gen.Node                               // include name -> template (virtual file table)
	Strict    bool                                                // strict-variables mode
	PlainTag  func(name string, vars map[string]V) (string, bool) // harness-registered tags (probes)
	MapOrder  bool                                                // iterate maps in sorted key order (else >1 entries is Unsp)
	FailFiles map[string]bool                                     // include names whose content cannot render (syntax error, unknown tag): including them is an error
}

type ctl int

const (
	ctlNone ctl = iota
	ctlBreak
	ctlContinue
)

type rstate struct {
	m      *Model
	vars   map[string]V
	cycles []map[string]int // one per active loop
	depth  int
}

// Render renders nodes against env.
func (m *Model) Render(nodes []gen.Node, env gen.Env) (string, Status) {
	st := &rstate{m: m, vars: map[string]V{}}
	for _, kv := range env {
		st.vars[kv.K] = kv.V
	}
	var sb strings.Builder
	c, s := st.seq(&sb, nodes)
	if s != OK {
		return "", s
	}
	if c != ctlNone {
		return "", Unsp // break/continue outside a loop
	}
	return sb.String(), OK
}

// Eval evaluates an expression against env.
func (m *Model) Eval(e gen.Expr, env gen.Env) (V, Status) {
	st := &rstate{m: m, vars: map[string]V{}}
	for _, kv := range env {
		st.vars[kv.K] = kv.V
	}
	return st.eval(e)
}

func (st *rstate) eval(e gen.Expr) (V, Status) {
	switch e := e.(type) {
	case gen.Lit:
		return e.V, OK
	case gen.Var:
		return st.vars[e.Name], OK
	case gen.Prop:
		x, s := st.eval(e.X)
		if s != OK {
			return gen.Nil, s
		}
		if e.Bracket {
			return Index(x, gen.Str(e.Name))
		}
		return Prop(x, e.Name)
	case gen.Index:
		x, s := st.eval(e.X)
		if s != OK {
			return gen.Nil, s
		}
		i, s := st.eval(e.I)
		if s != OK {
			return gen.Nil, s
		}
		return Index(x, i)
	case gen.RangeE:
		a, s := st.eval(e.A)
		if s != OK {
			return gen.Nil, s
		}
		b, s := st.eval(e.B)
		if s != OK {
			return gen.Nil, s
		}
		if a.K != gen.KInt || b.K != gen.KInt {
			return gen.Nil, Unsp
		}
		if b.I-a.I > 10000 {
			return gen.Nil, Unsp
		}
		out := []V{}
		for i := a.I; i <= b.I; i++ {
			out = append(out, gen.Int(i))
		}
		return gen.Arr(out...), OK
	case gen.Cmp:
		a, s := st.eval(e.A)
		if s != OK {
			return gen.Nil, s
		}
		b, s := st.eval(e.B)
		if s != OK {
			return gen.Nil, s
		}
		switch Compare(e.Op, a, b) {
		case True:
			return gen.Bool(true), OK
		case False:
			return gen.Bool(false), OK
		}
		return gen.Nil, Unsp
	case gen.Logic:
		a, s := st.eval(e.A)
		if s != OK {
			return gen.Nil, s
		}
		b, s := st.eval(e.B) // operands have no side effects; evaluation order is not observable except through errors
		if s != OK {
			// an error/unspecified in the right operand: whether it is evaluated at all is not stated
			return gen.Nil, Unsp
		}
		if e.Op == "and" {
			return gen.Bool(Truthy(a) && Truthy(b)), OK
		}
		return gen.Bool(Truthy(a) || Truthy(b)), OK
	case gen.Filt:
		x, s := st.eval(e.X)
		if s != OK {
			return gen.Nil, s
		}
		args := make([]V, len(e.Args))
		for i, a := range e.Args {
			v, s := st.eval(a)
			if s != OK {
				return gen.Nil, s
			}
			args[i] = v
		}
		if !KnownFilter(e.Name) {
			return gen.Nil, Err
		}
		return Filter(e.Name, x, args)
	}
	return gen.Nil, Unsp
}

func (st *rstate) seq(w *strings.Builder, nodes []gen.Node) (ctl, Status) {
	for _, n := range nodes {
		c, s := st.node(w, n)
		if s != OK || c != ctlNone {
			return c, s
		}
	}
	return ctlNone, OK
}

func forloopV(i, n int) V {
	return gen.Map(
		gen.KV{K: "first", V: gen.Bool(i == 0)}, gen.KV{K: "last", V: gen.Bool(i == n-1)},
		gen.KV{K: "index", V: gen.Int(int64(i + 1))}, gen.KV{K: "index0", V: gen.Int(int64(i))},
		gen.KV{K: "rindex", V: gen.Int(int64(n - i))}, gen.KV{K: "rindex0", V: gen.Int(int64(n - i - 1))},
		gen.KV{K: "length", V: gen.Int(int64(n))})
}

// Select applies reversed, then offset, then limit.
func Select(items []V, reversed bool, offset, limit int, hasOffset, hasLimit bool) []V {
	out := append([]V{}, items...)
	if reversed {
		for i, j := 0, len(out)-1; i < j; i, j = i+1, j-1 {
			out[i], out[j] = out[j], out[i]
		}
	}
	if hasOffset {
		if offset > len(out) {
			offset = len(out)
		}
		out = out[offset:]
	}
	if hasLimit && limit < len(out) {
		out = out[:limit]
	}
	return out
}

func (st *rstate) node(w *strings.Builder, n gen.Node) (ctl, Status) {
	switch n := n.(type) {
	case gen.Text:
		w.WriteString(n.S)
	case gen.Out:
		v, s := st.eval(n.E)
		if s != OK {
			return ctlNone, s
		}
		if st.m.Strict && v.K == gen.KNil {
			return ctlNone, Err
		}
		p, ok := gen.Print(v)
		if !ok {
			return ctlNone, Unsp
		}
		w.WriteString(p)
	case gen.Assign:
		v, s := st.eval(n.E)
		if s != OK {
			return ctlNone, s
		}
		st.vars[n.Name] = v
	case gen.Capture:
		var sb strings.Builder
		c, s := st.seq(&sb, n.Body)
		if s != OK {
			return ctlNone, s
		}
		if c != ctlNone {
			return ctlNone, Unsp // break/continue escaping a capture: not stated
		}
		st.vars[n.Name] = gen.Str(sb.String())
	case gen.If:
		for i, cond := range n.Conds {
			v, s := st.eval(cond)
			if s != OK {
				return ctlNone, s
			}
			t := Truthy(v)
			if n.Unless && i == 0 {
				t = !t
			}
			if t {
				return st.seq(w, n.Bodies[i])
			}
		}
		if n.HasElse {
			return st.seq(w, n.Else)
		}
	case gen.Case:
		subj, s := st.eval(n.Subj)
		if s != OK {
			return ctlNone, s
		}
		for i, whens := range n.Whens {
			for _, we := range whens {
				v, s := st.eval(we)
				if s != OK {
					return ctlNone, s
				}
				switch Equal(subj, v) {
				case True:
					return st.seq(w, n.Bodies[i])
				case Unspec:
					return ctlNone, Unsp
				}
			}
		}
		if n.HasElse {
			return st.seq(w, n.Else)
		}
	case gen.For:
		return st.loop(w, n)
	case gen.Break:
		return ctlBreak, OK
	case gen.Continue:
		return ctlContinue, OK
	case gen.Cycle:
		if len(st.cycles) == 0 {
			return ctlNone, Unsp
		}
		cm := st.cycles[len(st.cycles)-1]
		g := ""
		if n.HasGroup {
			g = n.Group
		}
		k := cm[g]
		cm[g] = k + 1
		w.WriteString(n.Vals[k%len(n.Vals)])
	case gen.Include:
		v, s := st.eval(n.E)
		if s != OK {
			return ctlNone, s
		}
		if v.K != gen.KStr {
			return ctlNone, Err
		}
		if st.m.FailFiles[v.S] {
			return ctlNone, Err
		}
		body, ok := st.m.Files[v.S]
		if !ok {
			return ctlNone, Err
		}
		if st.depth > 8 {
			return ctlNone, Unsp
		}
		sub := &rstate{m: st.m, vars: map[string]V{}, depth: st.depth + 1}
		for k, x := range st.vars {
			sub.vars[k] = x
		}
		var sb strings.Builder
		c, s := sub.seq(&sb, body)
		if s != OK {
			return ctlNone, s
		}
		if c != ctlNone {
			// a break or continue that is not inside a loop of the included template itself: rendering that
			// file's content directly fails, so the include must fail (C14)
			return ctlNone, Err
		}
		w.WriteString(sb.String())
	case gen.Raw:
		w.WriteString(n.S)
	case gen.Comment:
	case gen.PlainTag:
		if st.m.PlainTag == nil {
			return ctlNone, Unsp
		}
		s, ok := st.m.PlainTag(n.Name, st.vars)
		if !ok {
			return ctlNone, Unsp
		}
		w.WriteString(s)
	default:
		return ctlNone, Unsp
	}
	return ctlNone, OK
}

func (st *rstate) intMod(e gen.Expr) (int, bool, Status) {
	if e == nil {
		return 0, false, OK
	}
	v, s := st.eval(e)
	if s != OK {
		return 0, false, s
	}
	if v.K != gen.KInt || v.I < 0 || v.I > 1<<30 {
		return 0, false, Unsp // non-integer or negative modifiers: no meaning stated
	}
	return int(v.I), true, OK
}

func (st *rstate) loop(w *strings.Builder, n gen.For) (ctl, Status) {
	coll, s := st.eval(n.Coll)
	if s != OK {
		return ctlNone, s
	}
	var items []V
	switch coll.K {
	case gen.KNil:
	case gen.KArr:
		items = coll.A
	case gen.KMap:
		if len(coll.M) > 1 && !st.m.MapOrder {
			return ctlNone, Unsp
		}
		kvs := append([]gen.KV{}, coll.M...)
		sort.Slice(kvs, func(i, j int) bool { return kvs[i].K < kvs[j].K })
		for _, kv := range kvs {
			items = append(items, gen.Arr(gen.Str(kv.K), kv.V))
		}
	default:
		return ctlNone, Unsp // iterating a scalar: not stated
	}
	off, hasOff, s := st.intMod(n.Offset)
	if s != OK {
		return ctlNone, s
	}
	lim, hasLim, s := st.intMod(n.Limit)
	if s != OK {
		return ctlNone, s
	}
	cols := 0
	if n.Tablerow && n.Cols != nil {
		c, ok, s := st.intMod(n.Cols)
		if s != OK {
			return ctlNone, s
		}
		if !ok || c == 0 {
			return ctlNone, Unsp
		}
		cols = c
	}
	sel := Select(items, n.Reversed, off, lim, hasOff, hasLim)
	if len(sel) == 0 {
		if n.HasElse {
			return st.seq(w, n.Else)
		}
		return ctlNone, OK
	}
	oldVar, hadVar := st.vars[n.Var]
	oldLoop, hadLoop := st.vars["forloop"]
	st.cycles = append(st.cycles, map[string]int{})
	defer func() {
		st.cycles = st.cycles[:len(st.cycles)-1]
		if hadVar {
			st.vars[n.Var] = oldVar
		} else {
			delete(st.vars, n.Var)
		}
		if hadLoop {
			st.vars["forloop"] = oldLoop
		} else {
			delete(st.vars, "forloop")
		}
	}()
	L := len(sel)
	for i, it := range sel {
		st.vars[n.Var] = it
		st.vars["forloop"] = forloopV(i, L)
		if n.Tablerow {
			if cols == 0 && i == 0 || cols > 0 && i%cols == 0 {
				w.WriteString("<tr>")
			}
			w.WriteString("<td>")
		}
		c, s := st.seq(w, n.Body)
		if s != OK {
			return ctlNone, s
		}
		if n.Tablerow {
			// continue skips to the next iteration and break leaves the loop; the item is still wrapped in its td,
			// and the row it stands in - like the last row of a collection that ends mid-row - in its tr
			w.WriteString("</td>")
			if cols > 0 && (i+1)%cols == 0 || i+1 == L || c == ctlBreak {
				w.WriteString("</tr>")
			}
		}
		if c == ctlBreak {
			break
		}
	}
	return ctlNone, OK
}

var reTableTag = regexp.MustCompile(`<(tr|td)(\s[^<>]*)?>`)

var (
	reRowSpace  = regexp.MustCompile(`\s*(</?tr>)\s*`)
	reCellSpace = regexp.MustCompile(`(</td>)\s+(<td>)`)
)

// NormTable reduces tablerow markup to the stated structure (each item in a td, every cols items in a
// tr): attributes of <tr ...> and <td ...> are dropped, and so is whitespace that merely separates
// rows and cells (around <tr> and </tr>, between </td> and <td>), which the statement leaves open.
func NormTable(s string) string {
	s = reTableTag.ReplaceAllString(s, "<$1>")
	if !strings.Contains(s, "<tr>") {
		return s
	}
	s = reRowSpace.ReplaceAllString(s, "$1")
	return reCellSpace.ReplaceAllString(s, "$1$2")
}
