package ref

// Sym is one symbol of the block-structure alphabet of C06.
type Sym int

const (
	SIf Sym = iota
	SUnless
	SCase
	SFor
	STablerow
	SCapture
	SComment
	SRaw
	SElse
	SElsif
	SWhen
	SEndIf
	SEndUnless
	SEndCase
	SEndFor
	SEndTablerow
	SEndCapture
	SEndComment
	SEndRaw
	SPlain
	SObject
	SText
	NumSyms
)

// SymName is the tag name of a symbol ("" for object/text).
var SymName = [...]string{"if", "unless", "case", "for", "tablerow", "capture", "comment", "raw", "else", "elsif", "when",
	"endif", "endunless", "endcase", "endfor", "endtablerow", "endcapture", "endcomment", "endraw", "assign", "", ""}

// admits is the clause-admission table of the statement.
var admits = map[Sym]map[Sym]bool{
	SIf: {SElsif: true, SElse: true}, SUnless: {SElse: true}, SCase: {SWhen: true, SElse: true}, SFor: {SElse: true},
	STablerow: {}, SCapture: {},
}

func endOf(open Sym) Sym { return SEndIf + (open - SIf) }

// NNode is a node of the reference tree.
type NNode struct {
	Sym     Sym      // SText/SObject/SPlain leaves, SRaw, or a block-open symbol
	Pos     int      // index in the symbol sequence
	Body    []*NNode // body before the first clause
	Clauses []*NClause
	RawBody []int // positions of the symbols inside a raw body
}

// NClause is an else/elsif/when clause with its body.
type NClause struct {
	Sym  Sym
	Pos  int
	Body []*NNode
}

// Nest is the block-nesting automaton: it accepts a symbol sequence iff every
// block is closed by its own end tag in properly nested order, every clause
// stands directly inside a block that admits it and no end or clause tag
// stands alone; comment and raw bodies are opaque up to their first end tag.
func Nest(seq []Sym) (root []*NNode, ok bool) {
	type frame struct {
		node *NNode
		ap   *[]*NNode
	}
	top := &NNode{Sym: -1}
	ap := &top.Body
	var stack []frame
	var cur *NNode
	for i := 0; i < len(seq); i++ {
		s := seq[i]
		switch {
		case s == SComment:
			j := i + 1
			for j < len(seq) && seq[j] != SEndComment {
				j++
			}
			if j == len(seq) {
				return nil, false // never closed
			}
			i = j
		case s == SRaw:
			n := &NNode{Sym: SRaw, Pos: i}
			j := i + 1
			for j < len(seq) && seq[j] != SEndRaw {
				n.RawBody = append(n.RawBody, j)
				j++
			}
			if j == len(seq) {
				return nil, false
			}
			*ap = append(*ap, n)
			i = j
		case s <= SCapture: // block open
			n := &NNode{Sym: s, Pos: i}
			*ap = append(*ap, n)
			stack = append(stack, frame{cur, ap})
			cur, ap = n, &n.Body
		case s == SElse || s == SElsif || s == SWhen:
			if cur == nil || !admits[cur.Sym][s] {
				return nil, false
			}
			cl := &NClause{Sym: s, Pos: i}
			cur.Clauses = append(cur.Clauses, cl)
			ap = &cl.Body
		case s >= SEndIf && s <= SEndRaw:
			if cur == nil || s != endOf(cur.Sym) {
				return nil, false // includes a stray endcomment / endraw
			}
			f := stack[len(stack)-1]
			stack = stack[:len(stack)-1]
			cur, ap = f.node, f.ap
		default:
			*ap = append(*ap, &NNode{Sym: s, Pos: i})
		}
	}
	if cur != nil {
		return nil, false
	}
	return top.Body, true
}
