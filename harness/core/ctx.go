package core

import (
	"encoding/binary"
	"encoding/json"
	"fmt"
	"os"
	"path/filepath"
	"runtime"
	"sort"
	"sync"
	"syscall"
	"time"
)

// Prop describes one property check.
type Prop struct {
	ID            string
	Level         string // exploration | fault_enumeration
	Rule          string // how cases are generated and what makes one non-trivial
	Exhaustive    func(tier string) bool
	Assumptions   []string
	Shards        int                      // worker processes (0 = 16)
	Race          bool                     // build with -race
	NoHangMonitor bool                     // cases are concurrent batches; CPU-per-case watchdog does not apply
	BlockingOK    bool                     // the worker legitimately waits without using CPU (for a child process): no blocked-case monitor
	MinEvents     map[string]int64         // observation counters that must be reached, else inconclusive
	Run           func(c *Ctx)             // executed in each worker
	Post          func(d *Merged) []string // optional driver-side checks on merged observations; returns inconclusive reasons
}

// Props is the registry, filled by package props.
var Props = map[string]*Prop{}

// Register adds a property check.
func Register(p *Prop) { Props[p.ID] = p }

const curSize = 1 << 16

// Ctx is the per-worker context handed to Prop.Run.
type Ctx struct {
	Prop    string
	Tier    string
	Quick   bool
	Seed    uint64
	Shard   int
	NShards int
	WorkDir string

	caseNo    int64
	skipSet   map[int64]bool
	decoy     bool // run core.Decoy between cases
	only      int64
	cur       []byte
	mu        sync.Mutex
	rep       report
	caseStart time.Time
}

type report struct {
	Evals    int64                 `json:"evals"`
	Skipped  int64                 `json:"skipped"`
	Viol     map[string]*Violation `json:"viol"`
	Samples  []any                 `json:"samples"`
	Obs      map[string]int64      `json:"obs"`
	distinct map[uint64]struct{}
}

// Violation is one distinct (by key) violation with its first witness.
type Violation struct {
	Key     string         `json:"key"`
	What    string         `json:"what"`
	Count   int64          `json:"count"`
	Shard   int            `json:"shard"`
	CaseNo  int64          `json:"case_no"`
	Witness map[string]any `json:"witness"`
}

// Pick returns quick when the tier is quick, else thorough.
func (c *Ctx) Pick(quick, thorough int) int {
	if c.Quick {
		return quick
	}
	return thorough
}

// Mine reports whether global case index i belongs to this shard.
func (c *Ctx) Mine(i int) bool { return i%c.NShards == c.Shard }

// Rand returns the PRNG stream for case index i of this property.
func (c *Ctx) Rand(i int, salt ...uint64) *Rand {
	keys := append([]uint64{c.Seed, HashString(c.Prop), uint64(i)}, salt...)
	return NewRand(keys...)
}

// Begin announces a case before the library is touched. It returns false when
// the case must be skipped (resume after a worker death, or replay of another case).
func (c *Ctx) Begin(desc string) bool {
	c.caseNo++
	if c.decoy && c.caseNo%2048 == 0 {
		Decoy() // another engine is configured and used while this check's engines exist
	}
	if c.only != 0 && c.caseNo != c.only {
		return false
	}
	if c.skipSet[c.caseNo] {
		return false
	}
	if c.cur != nil {
		binary.LittleEndian.PutUint64(c.cur[0:8], uint64(c.caseNo))
		n := copy(c.cur[16:], desc)
		binary.LittleEndian.PutUint64(c.cur[8:16], uint64(n))
	}
	return true
}

// CaseNo returns the running case number.
func (c *Ctx) CaseNo() int64 { return c.caseNo }

// Eval counts n judged library executions.
func (c *Ctx) Eval(n int) { c.mu.Lock(); c.rep.Evals += int64(n); c.mu.Unlock() }

// Skip counts a generated case that was not judged (and why).
func (c *Ctx) Skip(why string) {
	c.mu.Lock()
	c.rep.Skipped++
	c.rep.Obs["skipped:"+why]++
	c.mu.Unlock()
}

// Obs increments an observation counter.
func (c *Ctx) Obs(name string, n int64) { c.mu.Lock(); c.rep.Obs[name] += n; c.mu.Unlock() }

// ObsMax keeps the maximum for an observation gauge.
func (c *Ctx) ObsMax(name string, n int64) {
	c.mu.Lock()
	if n > c.rep.Obs[name] {
		c.rep.Obs[name] = n
	}
	c.mu.Unlock()
}

// Distinct records a non-trivial case by a hash of its identity.
func (c *Ctx) Distinct(parts ...string) {
	h := uint64(0xcbf29ce484222325)
	for _, p := range parts {
		h = mix(h ^ HashString(p))
	}
	c.mu.Lock()
	c.rep.distinct[h] = struct{}{}
	c.mu.Unlock()
}

// Sample offers a case for the evidence samples (a few are kept).
func (c *Ctx) Sample(s any) {
	c.mu.Lock()
	if len(c.rep.Samples) < 4 {
		c.rep.Samples = append(c.rep.Samples, s)
	}
	c.mu.Unlock()
}

// Violate records a violation. key identifies the specific failing thing
// (filter/tag/operator + failing-input class); witness is what a reader
// needs to reproduce it by hand.
func (c *Ctx) Violate(key, what string, witness map[string]any) {
	c.mu.Lock()
	defer c.mu.Unlock()
	v := c.rep.Viol[key]
	if v == nil {
		if len(c.rep.Viol) >= 400 {
			key = "(overflow: more than 400 distinct violation keys)"
			if v = c.rep.Viol[key]; v != nil {
				v.Count++
				return
			}
		}
		v = &Violation{Key: key, What: what, Shard: c.Shard, CaseNo: c.caseNo, Witness: witness}
		c.rep.Viol[key] = v
	}
	v.Count++
}

// NumViolations returns the number of distinct keys so far.
func (c *Ctx) NumViolations() int { c.mu.Lock(); defer c.mu.Unlock(); return len(c.rep.Viol) }

func shardBase(dir string, shard int) string {
	return filepath.Join(dir, fmt.Sprintf("shard-%02d", shard))
}

func openCur(path string) ([]byte, error) {
	f, err := os.OpenFile(path, os.O_RDWR|os.O_CREATE, 0o644)
	if err != nil {
		return nil, err
	}
	defer f.Close()
	if err := f.Truncate(curSize); err != nil {
		return nil, err
	}
	return syscall.Mmap(int(f.Fd()), 0, curSize, syscall.PROT_READ|syscall.PROT_WRITE, syscall.MAP_SHARED)
}

func readCur(path string) (int64, string) {
	b, err := os.ReadFile(path)
	if err != nil || len(b) < 16 {
		return 0, ""
	}
	no := int64(binary.LittleEndian.Uint64(b[0:8]))
	n := int(binary.LittleEndian.Uint64(b[8:16]))
	if n > len(b)-16 {
		n = len(b) - 16
	}
	return no, string(b[16 : 16+n])
}

func cpuSeconds() float64 {
	var ru syscall.Rusage
	if syscall.Getrusage(syscall.RUSAGE_SELF, &ru) != nil {
		return 0
	}
	return float64(ru.Utime.Sec+ru.Stime.Sec) + float64(ru.Utime.Usec+ru.Stime.Usec)/1e6
}

var syscallSIGQUIT = syscall.SIGQUIT

// HangCPUSeconds is the CPU time one case may use before the worker declares a hang.
const HangCPUSeconds = 60

// BlockedTicks is the number of consecutive half-second observations without a new case and without CPU use after
// which the worker declares the case blocked.
const BlockedTicks = 90

func dumpGoroutines() {
	buf := make([]byte, 1<<20)
	os.Stderr.Write(buf[:runtime.Stack(buf, true)])
}

// RunWorker executes one shard in this process and writes its result files.
func RunWorker(p *Prop, tier string, seed uint64, shard, nshards int, dir string, skip map[int64]bool, only int64) int {
	c := &Ctx{Prop: p.ID, Tier: tier, Quick: tier == "quick", Seed: seed, Shard: shard, NShards: nshards, WorkDir: dir,
		skipSet: skip, only: only}
	c.rep = report{Viol: map[string]*Violation{}, Obs: map[string]int64{}, distinct: map[uint64]struct{}{}}
	base := shardBase(dir, shard)
	if cur, err := openCur(base + ".cur"); err == nil {
		c.cur = cur
	}
	// hang monitor: CPU time (not wall clock) spent while the case number stays the same
	go func() {
		last, lastCPU := int64(-1), 0.0
		idleTicks, idleCPU := 0, 0.0
		for {
			time.Sleep(500 * time.Millisecond)
			var no int64
			if c.cur != nil {
				no = int64(binary.LittleEndian.Uint64(c.cur[0:8]))
			}
			cpu := cpuSeconds()
			if no != last {
				last, lastCPU = no, cpu
				idleTicks, idleCPU = 0, cpu
				continue
			}
			// blocked: the case neither ends nor uses the processor (a lock that is never released, a wait that nothing
			// ends). The criterion is "no progress of any kind over BlockedTicks observations", not a deadline on work:
			// a case that computes, however slowly, resets it.
			if cpu-idleCPU > 0.05 {
				idleTicks, idleCPU = 0, cpu
			} else if idleTicks++; no > 0 && idleTicks >= BlockedTicks && !p.BlockingOK {
				fmt.Fprintf(os.Stderr, "worker %d: case %d has neither ended nor used the processor during %d observations; declaring it blocked\n", shard, no, BlockedTicks)
				dumpGoroutines()
				os.Exit(4)
			}
			if no > 0 && cpu-lastCPU > HangCPUSeconds && !p.NoHangMonitor {
				fmt.Fprintf(os.Stderr, "worker %d: case %d used more than %d CPU-seconds; declaring hang\n", shard, no, HangCPUSeconds)
				os.Exit(3)
			}
		}
	}()
	Decoy()
	c.decoy = !p.Race
	p.Run(c)
	Decoy()
	return c.finish(base)
}

func (c *Ctx) finish(base string) int {
	c.mu.Lock()
	defer c.mu.Unlock()
	for k, v := range hookCounts() {
		c.rep.Obs["hook:"+k] = v
	}
	hs := make([]byte, 0, 8*len(c.rep.distinct))
	for h := range c.rep.distinct {
		hs = binary.LittleEndian.AppendUint64(hs, h)
	}
	if err := os.WriteFile(base+".hashes", hs, 0o644); err != nil {
		fmt.Fprintln(os.Stderr, err)
		return 2
	}
	js, err := json.Marshal(&c.rep)
	if err != nil {
		fmt.Fprintln(os.Stderr, "marshal report:", err)
		return 2
	}
	if err := os.WriteFile(base+".json", js, 0o644); err != nil {
		fmt.Fprintln(os.Stderr, err)
		return 2
	}
	return 0
}

// Merged is the driver-side union of the shard reports.
type Merged struct {
	Evals    int64
	Skipped  int64
	Viol     map[string]*Violation
	Samples  []any
	Obs      map[string]int64
	Distinct int
}

func sortedKeys[V any](m map[string]V) []string {
	ks := make([]string, 0, len(m))
	for k := range m {
		ks = append(ks, k)
	}
	sort.Strings(ks)
	return ks
}
