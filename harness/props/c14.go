package props

import (
	"fmt"
	"os"
	"path/filepath"
	"strings"

	"github.com/osteele/liquid"

	"verif/harness/core"
	"verif/harness/gen"
	"verif/harness/ref"
)

func init() {
	core.Register(&core.Prop{
		ID:         "C14",
		Level:      "exploration",
		Rule:       "PRNG include graphs (acyclic, depth <= 4, up to 7 files) of generated templates laid out in nested temporary directories; every file is independently: on disk only / in the cache only (ParseTemplateAndCache) / both with different content (disk must win) / missing; include arguments are literals, variables and filtered expressions; the top-level template is parsed with an absolute path, a relative path or no path (cwd), and includes occur inside loops, conditionals and captures after assigns. Every fifth graph is written with custom delimiters on an engine configured with them. The output is compared with the reference model inlining the graph (files end with nothing, LF, CRLF or blank lines). Cache lifecycle: an includer parsed before its partial is registered, then the partial registered five times under one path (long, short, empty, longer) - every render of the old and of a freshly parsed includer inserts what the latest registration renders. Failure cases: missing file at any depth, nil/int/array/map argument, render error / syntax error / unknown tag / break or continue outside a loop inside an included file at any depth (also when the include itself stands in a loop), a directory or a path through a regular file. Non-trivial = at least one include is executed; distinct = distinct (graph sources, presence states, path mode).",
		Exhaustive: func(string) bool { return false },
		Assumptions: []string{
			"included files are resolved relative to the directory of the top-level template's parse path at every depth, also when the including file itself lies in a sub-directory (the engine parses an included file at its includer's location; the statement says: the path the template being rendered was parsed with, and: exactly the output that rendering the content inline gives)",
			"whether assignments made inside an included file leak back is not asserted (included files do not assign)",
			"for EISDIR/ENOTDIR only 'SourceError, no output, no panic' is asserted",
		},
		MinEvents: map[string]int64{"includes_in_graphs": 1000},
		Run:       runC14,
	})
}

type c14file struct {
	arg         string // include argument that names it
	state       int    // 0 disk, 1 cache, 2 both, 3 missing
	prog        []gen.Node
	cacheAlt    []gen.Node
	fail        int // 0 ok, 1 render error, 2 syntax error, 3 unknown tag
	src         string
	cacheAltSrc string // re-spelled cache alternative (custom delimiters)
}

func runC14(c *core.Ctx) {
	root := filepath.Join(c.WorkDir, fmt.Sprintf("c14-%02d", c.Shard))
	os.MkdirAll(root, 0o755)
	defer os.RemoveAll(root)
	n := c.Pick(20000, 400000)
	for i := 0; i < n; i++ {
		if !c.Mine(i) {
			continue
		}
		r := c.Rand(i)
		caseDir := filepath.Join(root, fmt.Sprintf("g%d", i))
		c14Case(c, r, i, caseDir)
		os.Chdir(root)
		os.RemoveAll(caseDir)
	}
}

func c14Case(c *core.Ctx, r *core.Rand, i int, caseDir string) {
	env := gen.StdEnv(r)
	args := []string{"a.html", "sub/b.html", "../c.html", "sub/deep/d.html", "./e.html", "sub/../f.html", "g.inc"}
	nf := r.Range(1, len(args))
	files := make([]*c14file, nf)
	failAt := -1
	if r.P(1, 4) {
		failAt = r.Intn(nf)
	}
	fileStyle := gen.DefaultStyle
	fileStyle.R, fileStyle.WS = r, r.Intn(6)
	for k := nf - 1; k >= 0; k-- {
		f := &c14file{arg: args[k], state: r.Intn(4)}
		if r.P(2, 3) {
			f.state = r.Intn(3) // present more often than missing
		}
		var later []string
		// files in sub-directories include others too: the name is resolved relative to the directory of the path the
		// template being rendered (the top-level one) was parsed with, exactly as if the file's content stood inline
		// (statement, and observe_at: "rendering the inlined content"), not relative to the included file
		for j := k + 1; j < nf && len(later) < 2; j++ {
			if r.Bool() {
				later = append(later, args[j])
			}
		}
		feat := gen.Features{Loops: true, Case: true, Filters: true, Model: true, Include: later, MaxDepth: 2, MaxNodes: 7}
		g := gen.NewG(r, feat, env)
		f.prog = append([]gen.Node{gen.Text{S: "[" + args[k] + ":"}}, g.Program()...)
		// files end the way editors end them: with nothing, a newline, CRLF, or blank lines
		f.prog = append(f.prog, gen.Out{E: gen.Var{Name: "v1"}}, gen.Out{E: gen.Var{Name: "i"}}, gen.Text{S: "]" + []string{"", "", "\n", "\r\n", "\n\n", " \n"}[r.Intn(6)]})
		for _, l := range later {
			if r.Bool() {
				f.prog = append(f.prog, gen.Include{E: gen.Lit{V: gen.Str(l)}})
			}
		}
		f.cacheAlt = []gen.Node{gen.Text{S: "[CACHED " + args[k] + "]"}, gen.Out{E: gen.Var{Name: "n"}}}
		if r.P(1, 8) {
			f.prog = nil // an empty file is a file too: it renders to nothing, and on disk it still wins over the cache
		}
		if k == failAt {
			f.fail = r.Range(1, 4)
		}
		f.src = fileStyle.Source(f.prog)
		switch f.fail {
		case 1:
			f.prog = append(f.prog, gen.Out{E: gen.Filt{X: gen.Lit{V: gen.Int(1)}, Name: "divided_by", Args: []gen.Expr{gen.Lit{V: gen.Int(0)}}}})
			f.src = fileStyle.Source(f.prog)
		case 4:
			// break / continue outside any loop of the file itself (possibly inside a loop of an includer)
			var ctl gen.Node = gen.Break{}
			if r.Bool() {
				ctl = gen.Continue{}
			}
			f.prog = append(f.prog, gen.If{Conds: []gen.Expr{gen.Lit{V: gen.Bool(true)}}, Bodies: [][]gen.Node{{gen.Text{S: "x"}, ctl}}}, gen.Text{S: "after"})
			f.src = fileStyle.Source(f.prog)
		case 2:
			f.src += "{{ 'unterminated }}"
		case 3:
			f.src += "{% nosuchtag %}"
		}
		files[k] = f
	}
	// top-level template
	var incArgs []string
	for _, f := range files {
		incArgs = append(incArgs, f.arg)
	}
	tf := gen.Features{Loops: true, Assign: true, Capture: true, Case: true, Filters: true, Model: true, Include: incArgs[:1+r.Intn(len(incArgs))], MaxDepth: 3, MaxNodes: 10}
	tg := gen.NewG(r, tf, env)
	top := tg.Program()
	// explicit includes with the three argument spellings
	f0 := files[r.Intn(nf)]
	env = append(env, gen.KV{K: "incname", V: gen.Str(f0.arg)})
	dir, base := filepath.Split(f0.arg)
	top = append(top, gen.Assign{Name: "v1", E: gen.Lit{V: gen.Str("assigned-before-include")}},
		gen.Include{E: gen.Var{Name: "incname"}},
		gen.Include{E: gen.Filt{X: gen.Lit{V: gen.Str(dir)}, Name: "append", Args: []gen.Expr{gen.Lit{V: gen.Str(base)}}}},
		gen.For{Var: "i", Coll: gen.RangeE{A: intLit(1), B: intLit(2)}, Body: []gen.Node{gen.Include{E: gen.Lit{V: gen.Str(files[0].arg)}}}})
	// an include whose argument expression depends on the loop variable: each iteration names another file
	nparts := r.Range(2, 3)
	for pi := 1; pi <= nparts; pi++ {
		pf := &c14file{arg: fmt.Sprintf("part_%d.html", pi), state: r.Intn(3), prog: []gen.Node{gen.Text{S: fmt.Sprintf("<part %d ", pi)}, gen.Out{E: gen.Var{Name: "pi"}}, gen.Text{S: ">"}}}
		pf.cacheAlt = []gen.Node{gen.Text{S: "[CACHED part]"}}
		pf.src = gen.DefaultStyle.Source(pf.prog)
		files = append(files, pf)
	}
	top = append(top, gen.For{Var: "pi", Coll: gen.RangeE{A: intLit(1), B: intLit(nparts)}, Body: []gen.Node{
		gen.Include{E: gen.Filt{X: gen.Filt{X: gen.Lit{V: gen.Str("part_")}, Name: "append", Args: []gen.Expr{gen.Var{Name: "pi"}}}, Name: "append", Args: []gen.Expr{gen.Lit{V: gen.Str(".html")}}}}}})
	badArg := -1
	if r.P(1, 8) {
		badArg = r.Intn(4)
		top = append(top, gen.Include{E: []gen.Expr{gen.Var{Name: "nothing"}, gen.Lit{V: gen.Int(3)}, gen.Var{Name: "arr"}, gen.Var{Name: "m"}}[badArg]})
	}
	// printed in one of six white-space styles: tags and objects may span several lines (what follows a multi-line tag still
	// belongs to the same file, in the same directory)
	topStyle := gen.DefaultStyle
	topStyle.R, topStyle.WS = r, r.Intn(6)
	topSrc := topStyle.Source(top)
	if r.P(1, 3) {
		topSrc = "{{ n\n | plus: 0\n}}{% assign\n multi = 1\n%}" + topSrc
		top = append([]gen.Node{gen.Out{E: gen.Filt{X: gen.Var{Name: "n"}, Name: "plus", Args: []gen.Expr{gen.Lit{V: gen.Int(0)}}}}, gen.Assign{Name: "multi", E: gen.Lit{V: gen.Int(1)}}}, top...)
	}

	// layout
	pathMode := r.Intn(3) // 0 absolute, 1 relative, 2 no path
	topDirRel := "d1"
	if pathMode == 2 {
		topDirRel = "."
	}
	// cwd is caseDir/w; every include target, including "../c.html", stays inside caseDir
	cwd := filepath.Join(caseDir, "w")
	os.MkdirAll(filepath.Join(cwd, "d1", "sub", "deep"), 0o755)
	os.MkdirAll(filepath.Join(cwd, "sub", "deep"), 0o755)
	if err := os.Chdir(cwd); err != nil {
		c.Skip("chdir failed")
		return
	}
	topPath := ""
	switch pathMode {
	case 0:
		topPath = filepath.Join(cwd, "d1", "top.liquid")
	case 1:
		topPath = filepath.Join("d1", "top.liquid")
	}
	desc := fmt.Sprintf("graph: top(%q)=%s", topPath, topSrc)
	for _, f := range files {
		desc += fmt.Sprintf(" || %s[%s]=%s", f.arg, []string{"disk", "cache", "both", "missing"}[f.state], f.src)
	}
	if !c.Begin(desc + " env=" + env.String()) {
		return
	}
	e := liquid.NewEngine()
	if i%5 == 4 {
		// the whole graph written with custom delimiters, on an engine configured with them
		d := [4]string{"[[", "]]", "<%", "%>"}
		ok := true
		sp := func(src string) string {
			rs, toks := respell(src, d)
			if !sameTokens(toks, c19Tokens(rs, d)) {
				ok = false
			}
			return rs
		}
		newTop := sp(topSrc)
		newSrcs := make([]string, len(files))
		for k, f := range files {
			newSrcs[k] = sp(f.src)
		}
		if ok {
			topSrc = newTop
			for k, f := range files {
				f.src = newSrcs[k]
				if f.cacheAlt != nil {
					f.cacheAltSrc = sp(gen.DefaultStyle.Source(f.cacheAlt))
				}
			}
		}
		if ok {
			e.Delims(d[0], d[1], d[2], d[3])
			c.Obs("graphs_with_custom_delimiters", 1)
		}
	}
	m := &ref.Model{Files: map[string][]gen.Node{}, FailFiles: map[string]bool{}}
	for _, f := range files {
		joined := filepath.Join(filepath.Dir(topPath), f.arg)
		onDisk := joined
		if pathMode != 0 {
			onDisk = filepath.Join(cwd, topDirRel, f.arg)
		}
		if f.state == 0 || f.state == 2 {
			os.MkdirAll(filepath.Dir(onDisk), 0o755)
			if err := os.WriteFile(onDisk, []byte(f.src), 0o644); err != nil {
				c.Skip("write failed")
				return
			}
		}
		if f.state == 1 || f.state == 2 {
			csrc := f.src
			if f.state == 2 {
				csrc = gen.DefaultStyle.Source(f.cacheAlt)
				if f.cacheAltSrc != "" {
					csrc = f.cacheAltSrc
				}
			}
			if f.state == 1 && f.fail >= 2 {
				// unparseable source cannot be registered in the cache; make it a disk file instead
				os.MkdirAll(filepath.Dir(onDisk), 0o755)
				os.WriteFile(onDisk, []byte(f.src), 0o644)
			} else if _, err := e.ParseTemplateAndCache([]byte(csrc), joined, 1); err != nil {
				c.Violate("cache-registration", "ParseTemplateAndCache rejected a valid template", map[string]any{"source": csrc, "error": err.Error()})
				return
			}
		}
		if f.state != 3 {
			m.Files[f.arg] = f.prog
			if f.fail >= 2 {
				m.FailFiles[f.arg] = true
			}
		}
	}
	exp, status := m.Render(top, env)
	if status == ref.Unsp {
		c.Skip("reference model: result not determined by the property statements")
		return
	}
	bind := gen.CanonEnv(env)
	switch i % 6 {
	case 2:
		bind["incname"] = gen.NTitle(f0.arg) // the name of the file as a value of a named string type
	case 3:
		bind["incname"] = gen.DropV{X: f0.arg} // ... as a Drop that stands for the string
	case 4:
		name := f0.arg
		bind["incname"] = &name // ... behind a pointer
	case 5:
		bind["incname"] = &gen.DropP{X: gen.NTitle(f0.arg)}
	}
	res := core.RunAt(e, topSrc, topPath, 1, bind)
	c.Eval(1)
	c.Obs("graphs", 1)
	c.Obs("includes_in_graphs", int64(strings.Count(exp, "[")+1))
	c.Distinct(desc)
	wit := func() map[string]any {
		w := map[string]any{"graph": core.Trunc(desc, 3000), "bindings": core.Trunc(env.String(), 400), "observed": res.Brief(), "path_mode": []string{"absolute", "relative", "none"}[pathMode]}
		if status == ref.Err {
			w["expected"] = "a SourceError (missing file, bad argument or failing included template)"
		} else {
			w["expected"] = exp
		}
		return w
	}
	switch {
	case res.Panic != "" || res.Shape != "":
		c.Violate("include|"+resClass(res), "include made the render panic or return a malformed result", wit())
	case status == ref.Err:
		if !res.IsErr {
			c.Violate("include|no-error", "a missing file, a non-string argument or an error inside the included template must fail the render with a SourceError", wit())
		}
		c.Obs("failure_graphs", 1)
	case res.IsErr:
		c.Violate("include|unexpected-error", "include failed although every file is available", wit())
	case res.Out != exp:
		c.Violate("include|wrong-output", "include did not insert exactly what rendering the named file's content with the current variables gives (or resolved the wrong file / wrong cache-vs-disk precedence)", wit())
	}
	if i%499 == 1 {
		c.Sample(map[string]any{"graph": core.Trunc(desc, 700), "output": core.Trunc(res.Out, 200)})
	}
	c14Extra(c, r, i, cwd)
	if i%4 == 0 {
		c14CacheLifecycle(c, r, cwd)
	}
	// natural non-ENOENT faults: a directory where a file is expected, a path through a regular file
	if i%10 == 0 {
		for _, arg := range []string{"sub", "top-is-a-file/x.html"} {
			os.WriteFile(filepath.Join(cwd, topDirRel, "top-is-a-file"), []byte("x"), 0o644)
			rr := core.RunAt(e, "before{% include '"+arg+"' %}after", topPath, 1, nil)
			c.Eval(1)
			c.Obs("eisdir_enotdir_cases", 1)
			if !rr.Failed() {
				c.Violate("include|fault|"+resClass(rr), "an unreadable include target (directory / path through a file) must fail with a SourceError and no output", map[string]any{"argument": arg, "observed": rr.Brief()})
			}
		}
	}
	_ = badArg
}

// c14Extra: two model-free laws.
// (1) An included file is rendered exactly as its content rendered directly, also when that content begins
// or ends with whitespace-control markers: the markers act inside the file, not on the includer's text.
// (2) What an engine rendered earlier does not matter: a top-level template that shares a partial (which
// itself includes) with another top-level template in another directory renders the same on a fresh engine
// and on an engine that rendered the other one first.
func c14Extra(c *core.Ctx, r *core.Rand, i int, cwd string) {
	env := gen.StdEnv(r)
	b := gen.CanonEnv(env)
	// ---- (1)
	f := gen.Features{Loops: true, Case: true, Filters: true, Trim: true, WSText: true, Assign: false, MaxDepth: 2, MaxNodes: 6}
	g := gen.NewG(r, f, env)
	body := gen.DefaultStyle.Source(g.Program())
	switch r.Intn(4) {
	case 0:
		body = "{{- s -}}" + body
	case 1:
		body = body + "{%- if t -%} x {%- endif -%}"
	case 2:
		body = "  {{- n -}}  "
	}
	dir := filepath.Join(cwd, "x1")
	os.MkdirAll(dir, 0o755)
	os.WriteFile(filepath.Join(dir, "edge.html"), []byte(body), 0o644)
	e := liquid.NewEngine()
	alone := core.Run(e, body, b)
	for _, top := range []string{"A {% include 'edge.html' %} B", "A \n{% include 'edge.html' %}\n B {{- n }}", "{% for q in (1..2) %} [ {% include 'edge.html' %} ] {% endfor %}"} {
		res := core.RunAt(e, top, filepath.Join(dir, "top.liquid"), 1, b)
		c.Eval(2)
		c.Obs("edge_trim_includes", 1)
		if alone.Panic != "" {
			continue
		}
		want := strings.ReplaceAll(top, "{% include 'edge.html' %}", "\x00")
		wantRes := core.Run(e, strings.ReplaceAll(want, "\x00", "{{ vinc_placeholder }}"), mergeBinding(b, "vinc_placeholder", alone.Out))
		ok := alone.Failed() && res.Failed() || alone.OK() && res.OK() && wantRes.OK() && res.Out == wantRes.Out
		if !ok {
			c.Violate("include|not-the-files-own-output|"+resClass(res), "include must insert exactly the output that rendering the file's content directly gives (trim markers at the edges of the file act inside the file)",
				map[string]any{"top": top, "file_content": body, "file_alone": alone.Brief(), "expected": wantRes.Brief(), "observed": res.Brief()})
		}
	}
	// ---- (2)
	d1, d2 := filepath.Join(cwd, "site1"), filepath.Join(cwd, "site2")
	os.MkdirAll(d1, 0o755)
	os.MkdirAll(d2, 0o755)
	os.WriteFile(filepath.Join(d1, "shared.html"), []byte("<shared {{ n }} {% include 'leaf.html' %}>"), 0o644)
	os.WriteFile(filepath.Join(d1, "leaf.html"), []byte("[leaf of site1]"), 0o644)
	os.WriteFile(filepath.Join(d2, "leaf.html"), []byte("[leaf of site2 {{ s }}]"), 0o644)
	top1, top2 := "one: {% include 'shared.html' %}", "two: {% include '../site1/shared.html' %}{% include 'leaf.html' %}"
	p1, p2 := filepath.Join(d1, "index.liquid"), filepath.Join(d2, "index.liquid")
	solo := core.RunAt(liquid.NewEngine(), top2, p2, 1, b)
	shared := liquid.NewEngine()
	first := core.RunAt(shared, top1, p1, 1, b)
	after := core.RunAt(shared, top2, p2, 1, b)
	again := core.RunAt(shared, top1, p1, 1, b)
	c.Eval(4)
	c.Obs("include_history_cases", 1)
	if !solo.Same(after) || !first.Same(again) || solo.Panic != "" {
		c.Violate("include|depends-on-earlier-renders", "a template with includes rendered differently on an engine that had rendered another template (sharing a partial) before",
			map[string]any{"top1": top1, "top2": top2, "top2_on_fresh_engine": solo.Brief(), "top2_after_top1": after.Brief(), "top1_first": first.Brief(), "top1_again": again.Brief()})
	}
}

// c14CacheLifecycle: the cache is consulted when the include executes - a source registered after the includer was
// parsed is found, and registering a path again (shorter, empty, longer) replaces what it includes.
func c14CacheLifecycle(c *core.Ctx, r *core.Rand, cwd string) {
	env := gen.StdEnv(r)
	b := gen.CanonEnv(env)
	dir := filepath.Join(cwd, "life")
	os.MkdirAll(dir, 0o755)
	e := liquid.NewEngine()
	name := fmt.Sprintf("late%d.html", r.Intn(1000))
	topSrc := "[{% include '" + name + "' %}|{% for i in (1..2) %}{% include '" + name + "' %}{% endfor %}]"
	top, pr := core.Parse(e, topSrc, filepath.Join(dir, "top.liquid"), 1)
	if !pr.OK() {
		c.Violate("include|cache-lifecycle|parse", "the includer does not parse", map[string]any{"source": topSrc, "observed": pr.Brief()})
		return
	}
	before := core.Render(top, b)
	c.Eval(1)
	if !before.Failed() {
		c.Violate("include|cache-lifecycle|missing-not-reported", "an include of a file that is neither on disk nor registered must fail the render", map[string]any{"source": topSrc, "observed": before.Brief()})
	}
	// a path that runs through a regular file names no file on disk: a source registered for it is used
	os.WriteFile(filepath.Join(dir, "plainfile"), []byte("x"), 0o644)
	through := filepath.Join(dir, "plainfile", "part.html")
	buf := []byte("[registered under a path through a file: {{ n }}]")
	wantThrough := core.Run(e, string(buf), b)
	if _, err := e.ParseTemplateAndCache(buf, through, 1); err == nil {
		for k := range buf {
			buf[k] = 'X' // the caller reuses its buffer: what was registered must not change with it
		}
		got := core.RunAt(e, "{% include 'plainfile/part.html' %}", filepath.Join(dir, "top.liquid"), 1, b)
		c.Eval(2)
		c.Obs("cache_lifecycle_steps", 1)
		if !got.Same(wantThrough) {
			c.Violate("include|cache-lifecycle|registered-source-not-used|"+resClass(got), "a source registered with ParseTemplateAndCache is used when no such file exists (also when the path runs through a regular file), exactly as it was registered (the caller may reuse its buffer)",
				map[string]any{"registered_path": "plainfile/part.html (plainfile is a regular file)", "expected": wantThrough.Brief(), "observed": got.Brief()})
		}
	}
	// a directory that occupies the name is no file either
	os.MkdirAll(filepath.Join(dir, "isdir.html"), 0o755)
	wantDir := core.Run(e, "[registered where a directory stands: {{ n }}]", b)
	if _, pr := core.ParseCache(e, "[registered where a directory stands: {{ n }}]", filepath.Join(dir, "isdir.html"), 1); pr.OK() {
		got := core.RunAt(e, "{% include 'isdir.html' %}", filepath.Join(dir, "top.liquid"), 1, b)
		c.Eval(2)
		c.Obs("cache_lifecycle_steps", 1)
		if !got.Same(wantDir) {
			c.Violate("include|cache-lifecycle|registered-source-not-used-directory|"+resClass(got), "a source registered with ParseTemplateAndCache is used when no such file exists (also when a directory has that name)",
				map[string]any{"registered_path": "isdir.html (a directory)", "expected": wantDir.Brief(), "observed": got.Brief()})
		}
	}
	// a source registered while a file of that name still existed is the one used once the file is gone (disk wins only
	// while there is a file), and a render that failed INSIDE an included file says nothing about the next include of it
	gone := filepath.Join(dir, "gone.html")
	os.WriteFile(gone, []byte("[on disk {{ n }}]"), 0o644)
	if _, pr := core.ParseCache(e, "[registered while the file existed {{ n }}]{% if fail_inside %}{{ 1 | divided_by: 0 }}{% endif %}", gone, 1); pr.OK() {
		onDisk := core.RunAt(e, "{% include 'gone.html' %}", filepath.Join(dir, "top.liquid"), 1, b)
		os.Remove(gone)
		wantReg := core.Run(e, "[registered while the file existed {{ n }}]", b)
		bFail := map[string]any{}
		for k, v := range b {
			bFail[k] = v
		}
		bFail["fail_inside"] = true
		failed := core.RunAt(e, "x{% include 'gone.html' %}y", filepath.Join(dir, "top.liquid"), 1, bFail)
		got := core.RunAt(e, "{% include 'gone.html' %}", filepath.Join(dir, "top.liquid"), 1, b)
		again := core.RunAt(e, "{% for i in (1..2) %}{% include 'gone.html' %}{% endfor %}", filepath.Join(dir, "top.liquid"), 1, b)
		c.Eval(5)
		c.Obs("cache_lifecycle_steps", 1)
		if wantDisk := core.Run(e, "[on disk {{ n }}]", b); !onDisk.Same(wantDisk) {
			c.Violate("include|cache-lifecycle|disk-does-not-win|"+resClass(onDisk), "while a file exists at the path it is what include renders, not the registered source", map[string]any{"expected": wantDisk.Brief(), "observed": onDisk.Brief()})
		}
		if !failed.Failed() {
			c.Violate("include|cache-lifecycle|failure-inside-not-reported", "an error inside an included template must fail the render", map[string]any{"observed": failed.Brief()})
		}
		if !got.Same(wantReg) || !again.OK() || again.Out != wantReg.Out+wantReg.Out {
			c.Violate("include|cache-lifecycle|registered-source-not-used-after-removal|"+resClass(got), "a source registered with ParseTemplateAndCache is used when no such file exists - also when a file existed at the time of the registration and was removed later, and after a render that failed inside that file",
				map[string]any{"expected": wantReg.Brief(), "observed": got.Brief(), "observed_in_loop": again.Brief()})
		}
	}
	// a source registered under an unclean spelling of its path is found under the path include computes
	if _, pr := core.ParseCache(e, "[unclean {{ n }}]", dir+"/./sub/../uncl.html", 1); pr.OK() {
		wantU := core.Run(e, "[unclean {{ n }}]", b)
		gotU := core.RunAt(e, "{% include 'uncl.html' %}", filepath.Join(dir, "top.liquid"), 1, b)
		c.Eval(2)
		c.Obs("cache_lifecycle_steps", 1)
		if !gotU.Same(wantU) {
			c.Violate("include|cache-lifecycle|unclean-registration-path|"+resClass(gotU), "a source registered with ParseTemplateAndCache is used when no such file exists - also when the path it was registered under was not in its shortest spelling",
				map[string]any{"registered_under": "<dir>/./sub/../uncl.html", "included_as": "uncl.html from <dir>/top.liquid", "expected": wantU.Brief(), "observed": gotU.Brief()})
		}
	}
	versions := []string{"<li class=\"item\">{{ s | upcase }}, {{ n }}</li> and a good deal of trailing text " + strings.Repeat("x", r.Intn(40)), "<li>{{ n }}</li>", "", "v4 {{ n | plus: 1 }}{% if t %} yes{% endif %} " + strings.Repeat("longer than all before ", 3), "z"}
	shuffled := make([]string, 0, len(versions))
	for _, j := range r.Perm(len(versions)) {
		shuffled = append(shuffled, versions[j])
	}
	versions = shuffled
	for k, v := range versions {
		if _, cr := core.ParseCache(e, v, filepath.Join(dir, name), 1); !cr.OK() {
			c.Violate("include|cache-lifecycle|registration", "ParseTemplateAndCache rejected a valid template", map[string]any{"source": v, "observed": cr.Brief()})
			return
		}
		alone := core.Run(e, v, b)
		got := core.Render(top, b)
		fresh := core.RunAt(e, topSrc, filepath.Join(dir, "top.liquid"), 1, b)
		c.Eval(3)
		c.Obs("cache_lifecycle_steps", 1)
		want := "[" + alone.Out + "|" + alone.Out + alone.Out + "]"
		if !alone.OK() || !got.OK() || got.Out != want || !fresh.Same(got) {
			c.Violate("include|cache-lifecycle|"+resClass(got), "after a path is registered (again) with ParseTemplateAndCache, an include of it must insert exactly what the newly registered source renders - also in a template that was parsed before the registration",
				map[string]any{"includer": topSrc, "registration_number": k + 1, "registered_source": v, "earlier_registrations": versions[:k], "expected": want, "parsed_before_registration": got.Brief(), "parsed_after_registration": fresh.Brief()})
			return
		}
	}
}

func mergeBinding(b map[string]any, k string, v any) map[string]any {
	out := make(map[string]any, len(b)+1)
	for kk, vv := range b {
		out[kk] = vv
	}
	out[k] = v
	return out
}
