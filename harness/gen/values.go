// Package gen holds the workload generators: logical values and their Go
// realisations, template programs and their printers, hostile sources.
package gen

import (
	"fmt"
	"math"
	"reflect"
	"sort"
	"strconv"
	"strings"

	yaml "gopkg.in/yaml.v2"

	"verif/harness/core"
)

// Kind of a logical (Liquid-level) value.
type Kind int

const (
	KNil Kind = iota
	KBool
	KInt
	KFloat
	KStr
	KArr
	KMap
)

// V is a logical value: what a template can observe, independent of the Go
// representation that carries it.
type V struct {
	K Kind
	B bool
	I int64
	F float64
	S string
	A []V
	M []KV // insertion-ordered, keys unique
}

// KV is one map entry.
type KV struct {
	K string
	V V
}

var Nil = V{K: KNil}

func Bool(b bool) V     { return V{K: KBool, B: b} }
func Int(i int64) V     { return V{K: KInt, I: i} }
func Float(f float64) V { return V{K: KFloat, F: f} }
func Str(s string) V    { return V{K: KStr, S: s} }
func Arr(a ...V) V {
	if a == nil {
		a = []V{}
	}
	return V{K: KArr, A: a}
}
func Map(kv ...KV) V {
	if kv == nil {
		kv = []KV{}
	}
	return V{K: KMap, M: kv}
}
func Ints(xs ...int64) V {
	a := make([]V, len(xs))
	for i, x := range xs {
		a[i] = Int(x)
	}
	return Arr(a...)
}
func Strs(xs ...string) V {
	a := make([]V, len(xs))
	for i, x := range xs {
		a[i] = Str(x)
	}
	return Arr(a...)
}

// Get returns the map entry for key.
func (v V) Get(key string) (V, bool) {
	for _, e := range v.M {
		if e.K == key {
			return e.V, true
		}
	}
	return Nil, false
}

// IsNum reports int or float.
func (v V) IsNum() bool { return v.K == KInt || v.K == KFloat }

// Num returns the numeric value as float64.
func (v V) Num() float64 {
	if v.K == KInt {
		return float64(v.I)
	}
	return v.F
}

// String is a debugging/witness rendering (JSON-like).
func (v V) String() string {
	switch v.K {
	case KNil:
		return "nil"
	case KBool:
		return strconv.FormatBool(v.B)
	case KInt:
		return strconv.FormatInt(v.I, 10)
	case KFloat:
		return "f" + strconv.FormatFloat(v.F, 'g', -1, 64)
	case KStr:
		return strconv.Quote(core.Trunc(v.S, 80))
	case KArr:
		ss := make([]string, len(v.A))
		for i, e := range v.A {
			ss[i] = e.String()
		}
		if len(ss) > 12 {
			ss = append(ss[:12], fmt.Sprintf("…(%d)", len(v.A)))
		}
		return "[" + strings.Join(ss, ",") + "]"
	case KMap:
		ss := make([]string, len(v.M))
		for i, e := range v.M {
			ss[i] = strconv.Quote(e.K) + ":" + e.V.String()
		}
		return "{" + strings.Join(ss, ",") + "}"
	}
	return "?"
}

// FormatFloat is how a float prints through {{ }}: shortest representation,
// whole numbers without a fractional part.
func FormatFloat(f float64) string {
	if f == math.Trunc(f) && math.Abs(f) < 1e21 {
		return strconv.FormatFloat(f, 'f', -1, 64)
	}
	return strconv.FormatFloat(f, 'g', -1, 64)
}

// Print is the text {{ v }} produces, where the properties define it.
// ok=false means the properties do not say (maps).
func Print(v V) (s string, ok bool) {
	switch v.K {
	case KNil:
		return "", true
	case KBool:
		return strconv.FormatBool(v.B), true
	case KInt:
		return strconv.FormatInt(v.I, 10), true
	case KFloat:
		return FormatFloat(v.F), true
	case KStr:
		return v.S, true
	case KArr:
		var sb strings.Builder
		for _, e := range v.A {
			p, ok := Print(e)
			if !ok {
				return "", false
			}
			sb.WriteString(p)
		}
		return sb.String(), true
	}
	return "", false
}

// Canon is the canonical Go realisation: nil, bool, int, float64, string,
// []any, map[string]any.
func Canon(v V) any {
	switch v.K {
	case KNil:
		return nil
	case KBool:
		return v.B
	case KInt:
		return int(v.I)
	case KFloat:
		return v.F
	case KStr:
		return v.S
	case KArr:
		out := make([]any, len(v.A))
		for i, e := range v.A {
			out[i] = Canon(e)
		}
		return out
	case KMap:
		out := make(map[string]any, len(v.M))
		for _, e := range v.M {
			out[e.K] = Canon(e.V)
		}
		return out
	}
	return nil
}

// Env is a logical binding environment (ordered for determinism).
type Env []KV

// CanonEnv realises an environment canonically.
func CanonEnv(e Env) map[string]any {
	out := make(map[string]any, len(e))
	for _, kv := range e {
		out[kv.K] = Canon(kv.V)
	}
	return out
}

func (e Env) String() string { return V{K: KMap, M: []KV(e)}.String() }

// Lookup finds a binding.
func (e Env) Lookup(name string) (V, bool) {
	for _, kv := range e {
		if kv.K == name {
			return kv.V, true
		}
	}
	return Nil, false
}

// ---- Drops used by realisations -------------------------------------------

// DropV is a value-receiver Drop.
type DropV struct{ X any }

func (d DropV) ToLiquid() any { return d.X }

// DropP is a pointer-receiver Drop.
type DropP struct{ X any }

func (d *DropP) ToLiquid() any { return d.X }

// Rep selects which representation classes Realise may use.
type Rep struct {
	Drops    bool // wrap in Drops at any depth
	Typed    bool // typed slices, fixed arrays, map[string]T
	Widths   bool // any integer/float width that holds the value exactly
	Unsigned bool // include unsigned widths
	Pointers bool // pointer to the value, where reached by variable/property lookup
	MapSlice bool // yaml.MapSlice for maps (caller guarantees lookup/size use only)
	Bytes    bool // []byte for strings (caller guarantees print/string-filter-receiver use only)
	Named    bool // named scalar types: type NTitle string, NInt int, NFloat float64, NBool bool
}

// AllReps enables every class except the two position-restricted ones.
var AllReps = Rep{Drops: true, Typed: true, Widths: true, Unsigned: true, Pointers: true, Named: true}

// Realise turns a logical value into a Go value, choosing the
// representation independently at every node. byLookup says the value is
// reached by variable or property lookup (pointers allowed there).
func Realise(v V, r *core.Rand, rep Rep, byLookup bool) any {
	x := realise1(v, r, rep, byLookup)
	if rep.Drops && r.P(1, 5) {
		if r.Bool() {
			x = DropV{x}
		} else {
			x = &DropP{x}
		}
	}
	return x
}

func fitsFloat32(f float64) bool { return float64(float32(f)) == f }

func realiseInt(i int64, r *core.Rand, rep Rep) any {
	if !rep.Widths {
		return int(i)
	}
	var opts []any
	opts = append(opts, int(i), int64(i))
	if i >= math.MinInt8 && i <= math.MaxInt8 {
		opts = append(opts, int8(i))
	}
	if i >= math.MinInt16 && i <= math.MaxInt16 {
		opts = append(opts, int16(i))
	}
	if i >= math.MinInt32 && i <= math.MaxInt32 {
		opts = append(opts, int32(i))
	}
	if rep.Unsigned && i >= 0 {
		opts = append(opts, uint(i), uint64(i))
		if i <= math.MaxUint8 {
			opts = append(opts, uint8(i))
		}
		if i <= math.MaxUint16 {
			opts = append(opts, uint16(i))
		}
		if i <= math.MaxUint32 {
			opts = append(opts, uint32(i))
		}
	}
	return opts[r.Intn(len(opts))]
}

func realise1(v V, r *core.Rand, rep Rep, byLookup bool) any {
	var x any
	switch v.K {
	case KNil:
		return nil
	case KBool:
		x = v.B
		if rep.Named && r.P(1, 5) {
			x = NBool(v.B)
		}
	case KInt:
		x = realiseInt(v.I, r, rep)
		if rep.Named && r.P(1, 6) && int64(int(v.I)) == v.I {
			x = NInt(v.I)
		}
	case KFloat:
		if rep.Widths && fitsFloat32(v.F) && r.Bool() {
			x = float32(v.F)
		} else {
			x = v.F
		}
		if rep.Named && r.P(1, 6) {
			x = NFloat(v.F)
		}
	case KStr:
		if rep.Bytes && r.Bool() {
			x = []byte(v.S)
		} else {
			x = v.S
		}
		if rep.Named && r.P(1, 6) {
			x = NTitle(v.S)
		}
	case KArr:
		x = realiseArr(v, r, rep)
	case KMap:
		x = realiseMap(v, r, rep)
	}
	if rep.Pointers && byLookup && r.P(1, 6) {
		p := reflect.New(reflect.TypeOf(x))
		p.Elem().Set(reflect.ValueOf(x))
		x = p.Interface()
	}
	return x
}

func homogeneous(vs []V) (Kind, bool) {
	if len(vs) == 0 {
		return KNil, false
	}
	k := vs[0].K
	for _, e := range vs {
		if e.K != k {
			return KNil, false
		}
	}
	return k, true
}

func realiseArr(v V, r *core.Rand, rep Rep) any {
	sub := rep
	sub.Bytes, sub.MapSlice = false, false
	generic := func() any {
		out := make([]any, len(v.A), len(v.A)+r.Intn(3)) // spare capacity: append-in-place hazards
		for i, e := range v.A {
			out[i] = Realise(e, r, sub, false)
		}
		return out
	}
	if rep.Typed && r.P(1, 6) {
		// a fixed-size array of interfaces: [N]any
		g := generic().([]any)
		av := reflect.New(reflect.ArrayOf(len(g), reflect.TypeOf((*any)(nil)).Elem())).Elem()
		for i, e := range g {
			if e != nil {
				av.Index(i).Set(reflect.ValueOf(e))
			}
		}
		return av.Interface()
	}
	if !rep.Typed || r.P(1, 3) {
		return generic()
	}
	k, ok := homogeneous(v.A)
	if !ok {
		return generic()
	}
	var sl reflect.Value
	switch k {
	case KInt:
		switch r.Intn(3) {
		case 0:
			s := make([]int, len(v.A))
			for i, e := range v.A {
				s[i] = int(e.I)
			}
			sl = reflect.ValueOf(s)
		case 1:
			s := make([]int64, len(v.A))
			for i, e := range v.A {
				s[i] = e.I
			}
			sl = reflect.ValueOf(s)
		default:
			for _, e := range v.A {
				if e.I < math.MinInt32 || e.I > math.MaxInt32 {
					return generic()
				}
			}
			s := make([]int32, len(v.A))
			for i, e := range v.A {
				s[i] = int32(e.I)
			}
			sl = reflect.ValueOf(s)
		}
	case KFloat:
		s := make([]float64, len(v.A))
		for i, e := range v.A {
			s[i] = e.F
		}
		sl = reflect.ValueOf(s)
	case KStr:
		s := make([]string, len(v.A))
		for i, e := range v.A {
			s[i] = e.S
		}
		sl = reflect.ValueOf(s)
	case KBool:
		s := make([]bool, len(v.A))
		for i, e := range v.A {
			s[i] = e.B
		}
		sl = reflect.ValueOf(s)
	default:
		return generic()
	}
	if r.Bool() {
		// fixed array [N]T
		at := reflect.ArrayOf(sl.Len(), sl.Type().Elem())
		av := reflect.New(at).Elem()
		reflect.Copy(av, sl)
		return av.Interface()
	}
	return sl.Interface()
}

func realiseMap(v V, r *core.Rand, rep Rep) any {
	sub := rep
	sub.Bytes, sub.MapSlice = false, false
	if rep.MapSlice && r.Bool() {
		ms := make(yaml.MapSlice, 0, len(v.M))
		for _, e := range v.M {
			ms = append(ms, yaml.MapItem{Key: e.K, Value: Realise(e.V, r, sub, true)})
		}
		return ms
	}
	order := r.Perm(len(v.M)) // construction order must not matter
	if rep.Typed && r.Bool() {
		vals := make([]V, len(v.M))
		for i, e := range v.M {
			vals[i] = e.V
		}
		if k, ok := homogeneous(vals); ok {
			switch k {
			case KInt:
				m := make(map[string]int, r.Intn(8))
				for _, i := range order {
					m[v.M[i].K] = int(v.M[i].V.I)
				}
				return m
			case KStr:
				m := make(map[string]string, r.Intn(8))
				for _, i := range order {
					m[v.M[i].K] = v.M[i].V.S
				}
				return m
			case KFloat:
				m := make(map[string]float64, r.Intn(8))
				for _, i := range order {
					m[v.M[i].K] = v.M[i].V.F
				}
				return m
			case KBool:
				m := make(map[string]bool, r.Intn(8))
				for _, i := range order {
					m[v.M[i].K] = v.M[i].V.B
				}
				return m
			}
		}
	}
	m := make(map[string]any, r.Intn(16))
	for _, i := range order {
		m[v.M[i].K] = Realise(v.M[i].V, r, sub, true)
	}
	return m
}

// RealiseEnv realises every binding (each reached by variable lookup).
func RealiseEnv(e Env, r *core.Rand, rep Rep) map[string]any {
	out := make(map[string]any, len(e))
	for _, kv := range e {
		out[kv.K] = Realise(kv.V, r, rep, true)
	}
	return out
}

// Describe renders a Go value with its concrete types, for witnesses.
func Describe(x any) string {
	return describe(reflect.ValueOf(x), 0)
}

func describe(rv reflect.Value, depth int) string {
	if !rv.IsValid() {
		return "nil"
	}
	if depth > 6 {
		return "…"
	}
	if rv.Kind() == reflect.Interface {
		if rv.IsNil() {
			return "nil"
		}
		rv = rv.Elem()
	}
	t := rv.Type()
	switch x := rv.Interface().(type) {
	case DropV:
		return "DropV(" + describe(reflect.ValueOf(x.X), depth+1) + ")"
	case *DropP:
		if x == nil {
			return "(*DropP)(nil)"
		}
		return "*DropP(" + describe(reflect.ValueOf(x.X), depth+1) + ")"
	case []byte:
		return "[]byte(" + strconv.Quote(core.Trunc(string(x), 60)) + ")"
	case yaml.MapSlice:
		ss := []string{}
		for _, it := range x {
			ss = append(ss, fmt.Sprint(it.Key)+":"+describe(reflect.ValueOf(it.Value), depth+1))
		}
		return "MapSlice{" + strings.Join(ss, ",") + "}"
	}
	switch rv.Kind() {
	case reflect.Ptr:
		if rv.IsNil() {
			return "(" + t.String() + ")(nil)"
		}
		return "&" + describe(rv.Elem(), depth+1)
	case reflect.Slice, reflect.Array:
		ss := []string{}
		for i := 0; i < rv.Len() && i < 12; i++ {
			ss = append(ss, describe(rv.Index(i), depth+1))
		}
		if rv.Len() > 12 {
			ss = append(ss, fmt.Sprintf("…(%d)", rv.Len()))
		}
		return t.String() + "{" + strings.Join(ss, ",") + "}"
	case reflect.Map:
		keys := rv.MapKeys()
		ss := []string{}
		for _, k := range keys {
			ss = append(ss, fmt.Sprint(k.Interface())+":"+describe(rv.MapIndex(k), depth+1))
		}
		sort.Strings(ss)
		return t.String() + "{" + strings.Join(ss, ",") + "}"
	case reflect.String:
		return t.String() + "(" + strconv.Quote(core.Trunc(rv.String(), 60)) + ")"
	case reflect.Struct:
		return fmt.Sprintf("%s%+v", t.String(), rv.Interface())
	default:
		return fmt.Sprintf("%s(%v)", t.String(), rv.Interface())
	}
}

// DescribeEnv renders bindings for witnesses.
func DescribeEnv(b map[string]any) string {
	ks := make([]string, 0, len(b))
	for k := range b {
		ks = append(ks, k)
	}
	sort.Strings(ks)
	ss := make([]string, len(ks))
	for i, k := range ks {
		ss[i] = k + "=" + Describe(b[k])
	}
	return core.Trunc(strings.Join(ss, "; "), 1500)
}

// FromGo converts a canonical Go realisation (and a few close relatives) back
// to a logical value; ok=false for anything else.
func FromGo(x any) (V, bool) {
	switch t := x.(type) {
	case nil:
		return Nil, true
	case bool:
		return Bool(t), true
	case int:
		return Int(int64(t)), true
	case int64:
		return Int(t), true
	case float64:
		return Float(t), true
	case string:
		return Str(t), true
	case []any:
		out := make([]V, len(t))
		for i, e := range t {
			v, ok := FromGo(e)
			if !ok {
				return Nil, false
			}
			out[i] = v
		}
		return Arr(out...), true
	case map[string]any:
		keys := make([]string, 0, len(t))
		for k := range t {
			keys = append(keys, k)
		}
		sort.Strings(keys)
		out := make([]KV, 0, len(t))
		for _, k := range keys {
			v, ok := FromGo(t[k])
			if !ok {
				return Nil, false
			}
			out = append(out, KV{k, v})
		}
		return Map(out...), true
	}
	return Nil, false
}

// Canonical is an order-independent text form of a logical value (maps sorted by key).
func Canonical(v V) string {
	switch v.K {
	case KArr:
		ss := make([]string, len(v.A))
		for i, e := range v.A {
			ss[i] = Canonical(e)
		}
		return "[" + strings.Join(ss, ",") + "]"
	case KMap:
		kvs := append([]KV{}, v.M...)
		sort.Slice(kvs, func(i, j int) bool { return kvs[i].K < kvs[j].K })
		ss := make([]string, len(kvs))
		for i, e := range kvs {
			ss[i] = strconv.Quote(e.K) + ":" + Canonical(e.V)
		}
		return "{" + strings.Join(ss, ",") + "}"
	case KStr:
		return strconv.Quote(v.S)
	case KFloat:
		if v.F == math.Trunc(v.F) && math.Abs(v.F) < 1e15 {
			return strconv.FormatInt(int64(v.F), 10) // 3.0 and 3 are the same Liquid number
		}
	}
	return v.String()
}
