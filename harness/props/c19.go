package props

import (
	"fmt"
	"strings"

	"github.com/osteele/liquid"

	"verif/harness/core"
	"verif/harness/gen"
	"verif/harness/ref"
)

func init() {
	core.Register(&core.Prop{
		ID:    "C19",
		Level: "exploration",
		Rule: "EXHAUSTIVE quadruples (object-left, object-right, tag-left, tag-right) of distinct, mutually non-prefixing strings of length 1..2 over the alphabet {<, >, $} (quick) / {<, >, [, ], $, @} (thorough), PRNG quadruples of length 1..4 over a 14-symbol punctuation alphabet with the regexp metacharacters ( ) * + ? . ^ \\ | ], and each of the 16 subsets of positions left empty. For each quadruple, generated templates (objects, tags, blocks, loops, hyphens on every side, raw/comment, multi-line tags, planted errors) are re-spelled with the custom delimiters via the frozen reference tokenizer and rendered on Engine.Delims(q) through ParseTemplate+Render, ParseAndRender, ParseAndRenderString and ParseAndFRender in turn; the result must equal the original on a default engine (bytes, or failure with the same LineNumber). A case is judged only if the re-spelled source tokenises under q into the same tokens. Partials reached through include are registered on each engine in its own spelling. The default delimiter strings must pass through as text under q. Templates in which an application tag expands the objects inside its own argument (render.Context.ExpandTagArg) are re-spelled inside the argument as well and compared the same way (every fifth exhaustive quadruple, every eighth random one, every empty-position subset). Non-trivial = the quadruple differs from the defaults; distinct = distinct (quadruple, template).",
		Exhaustive: func(string) bool { return true },
		Assumptions: []string{
			"the hyphen is excluded from the delimiter alphabet (it would make the whitespace-control marker ambiguous)",
			"template content that collides with a delimiter (e.g. a > b under right delimiter >) is discarded and counted, not judged",
			"error messages quote the source text, which legitimately differs; failures are compared by LineNumber only",
		},
		MinEvents: map[string]int64{"respelled_cases": 2000},
		Run:       runC19,
	})
}

type c19tok struct {
	ref.Tok
	opaque bool
}

func c19Tokens(src string, d [4]string) []c19tok {
	toks := ref.Tokens(src, d)
	out := make([]c19tok, len(toks))
	open := ""
	for i, t := range toks {
		out[i].Tok = t
		if open != "" {
			if t.Kind == ref.Tag && t.Name == "end"+open {
				open = ""
			} else {
				out[i].opaque = true
			}
		} else if t.Kind == ref.Tag && (t.Name == "raw" || t.Name == "comment") {
			open = t.Name
		}
	}
	return out
}

// respell rewrites the delimiters of every token outside raw/comment bodies.
func respell(src string, q [4]string) (string, []c19tok) {
	toks := c19Tokens(src, ref.DefaultDelims)
	var sb strings.Builder
	for _, t := range toks {
		if t.opaque || t.Kind == ref.Text {
			sb.WriteString(t.Src)
			continue
		}
		l, r := q[0], q[1]
		if t.Kind == ref.Tag {
			l, r = q[2], q[3]
		}
		inner := t.Src[2 : len(t.Src)-2]
		sb.WriteString(l + inner + r)
	}
	return sb.String(), toks
}

func sameTokens(a, b []c19tok) bool {
	// compare outside opaque bodies token by token; opaque bodies by their concatenated text
	flat := func(ts []c19tok) []string {
		var out []string
		body := ""
		for _, t := range ts {
			if t.opaque {
				body += t.Src
				continue
			}
			if body != "" {
				out = append(out, "B:"+body)
				body = ""
			}
			switch t.Kind {
			case ref.Text:
				out = append(out, "T:"+t.Src)
			case ref.Obj:
				out = append(out, fmt.Sprintf("O:%v:%v:%s", t.TrimL, t.TrimR, t.Args))
			default:
				out = append(out, fmt.Sprintf("G:%v:%v:%s:%s", t.TrimL, t.TrimR, t.Name, t.Args))
			}
		}
		if body != "" {
			out = append(out, "B:"+body)
		}
		return out
	}
	fa, fb := flat(a), flat(b)
	if len(fa) != len(fb) {
		return false
	}
	for i := range fa {
		if fa[i] != fb[i] {
			return false
		}
	}
	return true
}

func validQuad(q [4]string) bool {
	for i := 0; i < 4; i++ {
		if q[i] == "" {
			return false
		}
		for j := 0; j < 4; j++ {
			if i != j && strings.HasPrefix(q[j], q[i]) {
				return false
			}
		}
	}
	return true
}

// c19Partial is included by some of the fixed templates (registered with ParseTemplateAndCache on both engines).
const c19Partial = "[part n={{ n }} v={{ v }}{% if t %} t{% endif %} {{- s -}} {% include 'c19leaf.html' %}]\nplain line\n"

// c19Leaf is included by c19Partial: an include inside an included file.
const c19Leaf = "<leaf {{ v }}{% for i in (1..2) %}{{ i }}{% endfor %}>"

var c19Fixed = []string{
	"plain text only, no braces at all", "",
	"a {% assign v = 5 %}{% include 'c19part.html' %} b {% for i in (1..2) %}{% assign v = i %}{% include \"c19part.html\" %}{% endfor %}",
	"{% capture v %}cap{% endcapture %}x {%- include 'c19part.html' -%} y",
	"a {{ n }} b {%- if t -%} yes {%- endif -%} c",
	"{% for i in (1..3) -%} {{ i }} {%- endfor %}|{{- s -}}|",
	"x {%- raw -%} {{ raw }} {% endraw %} y{% comment %} {{ c }} {% endcomment %}z",
	"{% assign\n v = n\n | plus: 1 %}{{\n v\n}}\n{% capture c %}  {{- s }}  {% endcapture %}[{{ c }}]",
	"line1\n{{ 1 }}\nline3 {{ 1 | divided_by: 0 }}",
	"{% if t %}\n\n{% nosuchtag %}{% endif %}",
	"{% case n %}{% when 1 %}one{% else %}other{% endcase %}{% unless fa %}u{% endunless %}{% tablerow i in arr cols: 2 %}{{ i }}{% endtablerow %}",
	"{{ 'lit' | upcase }}{{ \"dq\" | append: s }}{{ arr | join: ', ' }}{{ arr[0] }}{{ m.a }}",
}

// c19TagArg: templates in which an application tag expands the objects inside its own argument
// (render.Context.ExpandTagArg, the Jekyll `{% include {{ page.x }} %}` idiom). «O «o «T «t stand for the delimiters.
var c19TagArg = []string{
	"a «T xecho pre-«O n «o-post «t b",
	"«T xwrap «O- s -«o «t body «O n «o «T endxwrap «t",
	"x «T- xecho «O s | upcase «o«O n «o -«t y",
	"«T xecho no object here «t|«T xecho «t|«T xinfo a b «t",
	"l1\n«T xecho «O 1 | divided_by: 0 «o «t",
	"l1\n\n«T if t «t\n«T xwrap «O nosuch | nofilter «o «t b «T endxwrap «t«T endif «t",
	"«T for i in (1..2) «t«T xecho i=«O i «o «O- forloop.index -«o ; «t«T endfor «t",
	"«T assign v = 'w' «t«T xecho «O v | append: s «o and «O arr | join: '+' «o «t",
	// the shortest tags there are, also as the last bytes of the source (shorter than a long object delimiter)
	"x«Tz«t", "«Tz«t", "«O n «o«T-z-«t", "a «Tz -«t",
	// the shortest objects there are as the whole argument (with one-character delimiters three or four bytes)
	"«T xecho «On«o «t|«T xecho «Os«o«t|«T xwrap «On«o «tb«T endxwrap «t|«T xecho «On«o«On«o «t",
	// a line break, a tab or a form feed before the closing delimiter is no part of the argument either
	"«T xinfo a b\n«t|«T xecho «O n «o\n«t|«T xecho x\t«t|«T xinfo (a)\r\n«t|«T xinfo q\f«t|«T xinfo a\n-«t  |",
}

func c19Spell(tpl string, q [4]string) string {
	return strings.NewReplacer("«O", q[0], "«o", q[1], "«T", q[2], "«t", q[3]).Replace(tpl)
}

// c19SameShape: both spellings tokenise to the same structure, outside and inside the expanding tags' arguments.
func c19SameShape(a string, qa [4]string, b string, qb [4]string, depth int) bool {
	ta, tb := ref.Tokens(a, qa), ref.Tokens(b, qb)
	if len(ta) != len(tb) {
		return false
	}
	for i := range ta {
		x, y := ta[i], tb[i]
		if x.Kind != y.Kind || x.Name != y.Name || x.TrimL != y.TrimL || x.TrimR != y.TrimR {
			return false
		}
		switch {
		case x.Kind == ref.Text:
			if x.Src != y.Src {
				return false
			}
		case x.Kind == ref.Tag && (x.Name == "xecho" || x.Name == "xwrap") && depth == 0:
			if !c19SameShape(x.Args, qa, y.Args, qb, 1) {
				return false
			}
		default:
			if x.Args != y.Args {
				return false
			}
		}
	}
	return true
}

func runC19(c *core.Ctx) {
	def := liquid.NewEngine()
	RegisterCustom(def)
	core.ParseCache(def, c19Leaf, "c19leaf.html", 1)
	if _, pr := core.ParseCache(def, c19Partial, "c19part.html", 1); !pr.OK() {
		c.Violate("harness|partial", "the partial does not parse on a default engine", map[string]any{"observed": pr.Brief()})
		return
	}
	// ---- objects inside the argument of an application tag ------------------------------------------------
	tagArg := func(q, engQ [4]string, kind string) {
		e := liquid.NewEngine().Delims(engQ[0], engQ[1], engQ[2], engQ[3])
		RegisterCustom(e)
		b := gen.CanonEnv(gen.StdEnv(core.NewRand(c.Seed, 0xC19)))
		// arguments whose last character could begin (or has just ended) a closing delimiter, in either spelling: the
		// blank before the closing delimiter is no part of them
		cases := append([]string{}, c19TagArg...)
		for _, ch := range []string{"%", "}", q[3][:1], q[1][len(q[1])-1:], q[1][:1], ")"} {
			if strings.ContainsAny(ch, "«\x00") || ch[0] >= 0x80 {
				continue
			}
			cases = append(cases, "«T xinfo a"+ch+" «t|«T xecho b"+ch+" «t|«T xinfo ("+ch+") -«t  |«T xecho «O n «o"+ch+" «t|", "«T xecho «O n «o «t|«T xecho «O n «o -«t z",
				"«T xinfo a"+ch+"\n«t|«T xecho b"+ch+"\r\n«t|«T xinfo ("+ch+")\n-«t  |«T xecho «O n «o"+ch+"\t\n«t|")
		}
		for _, tpl := range cases {
			src, rs := c19Spell(tpl, ref.DefaultDelims), c19Spell(tpl, q)
			if !c19SameShape(src, ref.DefaultDelims, rs, q, 0) {
				c.Skip("re-spelled tag argument collides with the delimiters")
				continue
			}
			want, got := core.Run(def, src, b), core.Run(e, rs, b)
			c.Eval(2)
			c.Obs("tag_argument_cases", 1)
			if q != ref.DefaultDelims {
				c.Distinct(fmt.Sprint(q), src)
			}
			same := want.OK() && got.OK() && want.Out == got.Out || want.Failed() && got.Failed() && want.Line == got.Line
			if !same || got.Panic != "" {
				c.Violate(kind+"-tag-argument|"+resClass(got), "an object inside the argument of an application tag (ExpandTagArg), written with the custom delimiters, does not render like the default spelling on a default engine",
					map[string]any{"delims": fmt.Sprintf("%q", engQ), "original": src, "respelled": rs, "default_engine": want.Brief(), "custom_engine": got.Brief()})
			}
		}
	}
	templates := func(r *core.Rand, k int) (string, gen.Env) {
		env := gen.StdEnv(r)
		if k < len(c19Fixed) {
			return c19Fixed[k], env
		}
		f := gen.FullFeatures()
		f.Errors = true
		f.WSText = true
		f.MaxNodes = 8
		g := gen.NewG(r, f, env)
		st := gen.DefaultStyle
		st.R, st.WS = r, []int{0, 0, 3, 5}[r.Intn(4)]
		return st.Source(g.Program()), env
	}
	entries := 0
	check := func(q [4]string, engQ [4]string, src string, env gen.Env, kind string) {
		// q: delimiters used for re-spelling; engQ: what is passed to Delims ("" = default)
		rs, toks := respell(src, q)
		if !sameTokens(toks, c19Tokens(rs, q)) {
			c.Skip("re-spelled source collides with the delimiters")
			return
		}
		b := gen.CanonEnv(env)
		want := core.Run(def, src, b)
		e := liquid.NewEngine()
		var early *liquid.Template
		var epr core.Res
		if entries%3 == 0 {
			// an earlier configuration of the same engine must not matter: Delims sets all four delimiters - also for a
			// source that the engine has parsed and rendered under the earlier configuration
			e.Delims("[[", "]]", "[%", "%]")
			core.Run(e, rs, gen.CanonEnv(env))
			core.ParseAndRenderString(e, rs, gen.CanonEnv(env))
			early, epr = core.ParsePlain(e, "early [[ n ]] [% if t %]yes[% endif %] [[ s | upcase ]]")
		}
		e.Delims(engQ[0], engQ[1], engQ[2], engQ[3])
		if early != nil && epr.OK() {
			// ... nor does rendering, under the new configuration, a template that was parsed under the earlier one
			core.Render(early, gen.CanonEnv(env))
			c.Obs("renders_of_a_template_parsed_under_an_earlier_configuration", 1)
		}
		if strings.Contains(src, "c19part.html") {
			// the partials are templates of the same engine: written with the same delimiters
			for name, psrc := range map[string]string{"c19part.html": c19Partial, "c19leaf.html": c19Leaf} {
				prs, ptoks := respell(psrc, q)
				if !sameTokens(ptoks, c19Tokens(prs, q)) {
					c.Skip("re-spelled partial collides with the delimiters")
					return
				}
				if _, pr := core.ParseCache(e, prs, name, 1); !pr.OK() {
					c.Violate(kind+"|partial-registration", "a partial written with the custom delimiters was rejected by ParseTemplateAndCache", map[string]any{"delims": fmt.Sprintf("%q", engQ), "partial": prs, "observed": pr.Brief()})
					return
				}
			}
			c.Obs("cases_with_included_partial", 1)
		}
		// every entry point of the configured engine must honour the delimiters
		entries++
		var got core.Res
		switch entries % 4 {
		case 0:
			got = core.Run(e, rs, b)
		case 1:
			got = core.ParseAndRender(e, rs, b)
		case 2:
			got = core.ParseAndRenderString(e, rs, b)
		default:
			got = core.ParseAndFRender(e, nil, rs, b)
		}
		c.Eval(2)
		c.Obs("respelled_cases", 1)
		if q != ref.DefaultDelims {
			c.Distinct(fmt.Sprint(q), src)
		}
		same := want.OK() && got.OK() && want.Out == got.Out || want.Failed() && got.Failed() && want.Line == got.Line
		if !same || got.Panic != "" {
			c.Violate(kind+"|"+resClass(got), "a template written with custom delimiters does not render like the same template with the default delimiters on a default engine",
				map[string]any{"delims": fmt.Sprintf("%q", engQ), "original": src, "respelled": rs, "bindings": core.Trunc(env.String(), 300), "default_engine": want.Brief(), "custom_engine": got.Brief()})
		}
		// the default delimiter strings are ordinary text under q
		if q[0] != "{{" && q[2] != "{%" && !strings.HasPrefix("{{", q[0]) && !strings.HasPrefix("{%", q[2]) && !strings.HasPrefix("{{", q[2]) && !strings.HasPrefix("{%", q[0]) {
			for _, txt := range []string{"a {{ n }} b {% if t %} c {%- endif -%} }} %}", "price {{ and {% are lone openers, }} and %} lone closers; at the very end: {%", "{{", "x {{- y", "{% raw %}{{ {% endraw"} {
				if sameTokens(c19Tokens(txt, q), []c19tok{{Tok: ref.Tok{Kind: ref.Text, Src: txt}}}) {
					gt := core.Run(e, txt, b)
					c.Eval(1)
					c.Obs("default_delimiters_as_text", 1)
					if !gt.OK() || gt.Out != txt {
						c.Violate("defaults-as-text|"+resClass(gt), "under custom delimiters the default delimiter strings must be ordinary text", map[string]any{"delims": fmt.Sprintf("%q", engQ), "source": txt, "observed": gt.Brief()})
					}
				}
			}
		}
	}
	// ---- exhaustive quadruples of length 1..2 ------------------------------------------------
	alpha := []string{"<", ">", "$"}
	if !c.Quick {
		alpha = []string{"<", ">", "[", "]", "$", "@"}
	}
	var strs []string
	for _, a := range alpha {
		strs = append(strs, a)
	}
	for _, a := range alpha {
		for _, b := range alpha {
			strs = append(strs, a+b)
		}
	}
	idx := 0
	ntpl := c.Pick(4, 3)
	for _, a := range strs {
		for _, b := range strs {
			for _, cc := range strs {
				for _, d := range strs {
					q := [4]string{a, b, cc, d}
					if !validQuad(q) {
						continue
					}
					for k := 0; k < ntpl; k++ {
						idx++
						if !c.Mine(idx) {
							continue
						}
						r := c.Rand(idx)
						src, env := templates(r, r.Intn(len(c19Fixed)*2))
						if !c.Begin(fmt.Sprintf("exhaustive-quad:%q tpl=%s", q, src)) {
							continue
						}
						check(q, q, src, env, "quad")
						if k == 0 && idx%5 == 0 {
							tagArg(q, q, "quad")
						}
						if idx%30011 == 1 {
							rs, _ := respell(src, q)
							c.Sample(map[string]any{"delims": fmt.Sprintf("%q", q), "original": src, "respelled": rs})
						}
					}
				}
			}
		}
	}
	// ---- random quadruples, length 1..4, regexp metacharacters -----------------------------------
	punct := []string{"(", ")", "*", "+", "?", ".", "^", "\\", "|", "]", "[", "<", "$", "#"}
	n := c.Pick(3000, 150000)
	for i := 0; i < n; i++ {
		if !c.Mine(i) {
			continue
		}
		r := c.Rand(i, 19)
		var q [4]string
		for j := range q {
			for k := r.Range(1, 4); k > 0; k-- {
				q[j] += punct[r.Intn(len(punct))]
			}
		}
		if !validQuad(q) {
			continue
		}
		src, env := templates(r, r.Intn(len(c19Fixed)*3))
		if !c.Begin(fmt.Sprintf("random-quad:%q tpl=%s", q, src)) {
			continue
		}
		check(q, q, src, env, "random-quad")
		c.Obs("random_quads", 1)
		if i%8 == 0 {
			tagArg(q, q, "random-quad")
		}
	}
	// ---- subsets of positions left empty ------------------------------------------------------------
	for i := 0; i < 16*c.Pick(40, 800); i++ {
		if !c.Mine(i) {
			continue
		}
		r := c.Rand(i, 20)
		mask := i % 16
		custom := [4]string{"<<", ">>", "<%", "%>"}
		if r.Bool() {
			custom = [4]string{"[[[", "]]", "(*", "*)"}
		}
		q, engQ := custom, custom
		for j := 0; j < 4; j++ {
			if mask&(1<<j) != 0 {
				q[j], engQ[j] = ref.DefaultDelims[j], ""
			}
		}
		if !validQuad(q) {
			continue
		}
		src, env := templates(r, r.Intn(len(c19Fixed)*2))
		if !c.Begin(fmt.Sprintf("empty-positions:%q tpl=%s", engQ, src)) {
			continue
		}
		check(q, engQ, src, env, fmt.Sprintf("empty-mask%d", mask))
		tagArg(q, engQ, fmt.Sprintf("empty-mask%d", mask))
		c.Obs("empty_position_cases", 1)
	}
}
