// Package ref is the reference model: an executable reading of the property
// statements, independent of the code under /repo.
package ref

import (
	"regexp"
	"strings"
	"sync"
)

// TokKind is the kind of a template token.
type TokKind int

const (
	Text TokKind = iota
	Obj
	Tag
)

// Tok is one template token as the properties describe them.
type Tok struct {
	Kind  TokKind
	Src   string // entire token text, delimiters included
	Name  string // tag name
	Args  string // tag arguments / object expression
	TrimL bool   // hyphen inside the left delimiter
	TrimR bool   // hyphen inside the right delimiter
	Line  int    // number of newlines before the token's first byte
	Off   int    // byte offset of the token's first byte
}

// DefaultDelims are the default delimiters in Engine.Delims order.
var DefaultDelims = [4]string{"{{", "}}", "{%", "%}"}

var (
	matcherMu sync.Mutex
	matchers  = map[[4]string]*regexp.Regexp{}
)

// matcher is a frozen copy of the intended token pattern: an object is the
// left delimiter, an optional hyphen, content (anything, newlines included,
// non-empty, shortest), an optional hyphen and the right delimiter; a tag is
// the left delimiter, optional hyphen, a name, optionally whitespace and
// arguments that do not contain the right delimiter, optional hyphen, right
// delimiter. Whitespace (newlines included) may separate the parts.
func matcher(d [4]string) *regexp.Regexp {
	matcherMu.Lock()
	defer matcherMu.Unlock()
	if m := matchers[d]; m != nil {
		return m
	}
	// "anything not starting the right tag delimiter", one byte at a time
	tr := d[3]
	var excl []string
	for i := 0; i < len(tr); {
		// step by rune
		j := i + 1
		for j < len(tr) && tr[j]&0xC0 == 0x80 {
			j++
		}
		excl = append(excl, regexp.QuoteMeta(tr[:i])+`[^`+classEscape(tr[i:j])+`]`)
		i = j
	}
	pat := regexp.QuoteMeta(d[0]) + `(-?)\s*((?s:.+?))\s*(-?)` + regexp.QuoteMeta(d[1]) +
		`|` + regexp.QuoteMeta(d[2]) + `(-?)\s*(\w+)(?:\s+((?:` + strings.Join(excl, "|") + `)+?))?\s*(-?)` + regexp.QuoteMeta(d[3])
	m := regexp.MustCompile(pat)
	matchers[d] = m
	return m
}

func classEscape(s string) string {
	switch s {
	case `\`, `]`, `^`, `-`, `[`:
		return `\` + s
	}
	return s
}

// endMatcher matches the tag called name (endraw, endcomment), with or without arguments.
func endMatcher(d [4]string, name string) *regexp.Regexp {
	matcherMu.Lock()
	defer matcherMu.Unlock()
	key := [4]string{d[0], d[1], d[2] + "\x00" + name, d[3]}
	if m := matchers[key]; m != nil {
		return m
	}
	tr := d[3]
	var excl []string
	for i := 0; i < len(tr); {
		j := i + 1
		for j < len(tr) && tr[j]&0xC0 == 0x80 {
			j++
		}
		excl = append(excl, regexp.QuoteMeta(tr[:i])+`[^`+classEscape(tr[i:j])+`]`)
		i = j
	}
	m := regexp.MustCompile(regexp.QuoteMeta(d[2]) + `-?\s*` + name + `(?:\s+(?:` + strings.Join(excl, "|") + `)+?)?\s*-?` + regexp.QuoteMeta(d[3]))
	matchers[key] = m
	return m
}

// Tokens splits src into tokens under delimiters d. The body of a raw or comment block is not tokenised:
// "the body of a raw block is emitted exactly as written whatever tag-like text it contains", so it runs up to
// the first end tag and is one piece of text, however much of it looks like the beginning of a tag or object.
func Tokens(src string, d [4]string) []Tok {
	var out []Tok
	m := matcher(d)
	p, line := 0, 0
	opaque := ""
	noEnd := map[string]bool{}
	for p < len(src) {
		if opaque != "" {
			// (a search that has failed is not repeated: there is no such end tag further on either)
			if !noEnd[opaque] {
				if end := endMatcher(d, "end"+opaque).FindStringIndex(src[p:]); end == nil {
					noEnd[opaque] = true
				} else if end[0] > 0 {
					body := src[p : p+end[0]]
					out = append(out, Tok{Kind: Text, Src: body, Line: line, Off: p})
					line += strings.Count(body, "\n")
					p += end[0]
				}
			}
			opaque = ""
		}
		ix := m.FindStringSubmatchIndex(src[p:])
		if ix == nil {
			break
		}
		for i := range ix {
			if ix[i] >= 0 {
				ix[i] += p
			}
		}
		ts, te := ix[0], ix[1]
		if p < ts {
			out = append(out, Tok{Kind: Text, Src: src[p:ts], Line: line, Off: p})
			line += strings.Count(src[p:ts], "\n")
		}
		s := src[ts:te]
		if ix[4] >= 0 { // object alternative
			out = append(out, Tok{Kind: Obj, Src: s, Args: src[ix[4]:ix[5]], TrimL: ix[3] > ix[2], TrimR: ix[7] > ix[6], Line: line, Off: ts})
		} else {
			t := Tok{Kind: Tag, Src: s, Name: src[ix[10]:ix[11]], TrimL: ix[9] > ix[8], TrimR: ix[15] > ix[14], Line: line, Off: ts}
			if ix[12] >= 0 {
				// the arguments end where the white space before the closing delimiter begins, also when the pattern's
				// two-character alternative ("% " in {% tag 50% %}) took a blank along
				t.Args = strings.TrimRight(src[ix[12]:ix[13]], " \t\r\n\f")
				// in a tag without arguments ({% name -%}) the shortest-match argument group takes the hyphen: it is
				// the trim marker, not an argument
				if hy := te - len(d[3]) - 1; !t.TrimR && src[hy] == '-' && ix[13] > hy {
					t.TrimR = true
					t.Args = strings.TrimRight(src[ix[12]:hy], " \t\r\n\f")
				}
			}
			out = append(out, t)
			if t.Name == "raw" || t.Name == "comment" {
				opaque = t.Name
			}
		}
		line += strings.Count(s, "\n")
		p = te
	}
	if p < len(src) {
		out = append(out, Tok{Kind: Text, Src: src[p:], Line: line, Off: p})
	}
	return out
}

// HasOpen reports whether a tag or object could open anywhere in src under
// the default delimiters (model-free sufficient condition for "plain text").
func HasOpen(src string) bool {
	return strings.Contains(src, "{{") || strings.Contains(src, "{%")
}

// BlockWord reports whether name is one of the standard block, clause or end tags.
func BlockWord(name string) bool {
	switch name {
	case "if", "unless", "case", "for", "tablerow", "capture", "comment", "raw", "else", "elsif", "when",
		"endif", "endunless", "endcase", "endfor", "endtablerow", "endcapture", "endcomment", "endraw":
		return true
	}
	return false
}
