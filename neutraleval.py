#!/usr/bin/env python3
"""neutraleval.py <dir with patch.diff> <id> [checks...]
Applies a property-PRESERVING change to /repo, confirms the suite passes, runs the quick checks (default: all),
undoes the change and stores the result under /verif/neutral/<id>/. Any alarm is a suspected false alarm to triage."""
import sys, os, subprocess, json, shutil, re, time
ENV = dict(os.environ, GOFLAGS="-mod=mod", GOPROXY="off", GOSUMDB="off", GOTOOLCHAIN="local")
def sh(cmd, cwd="/repo", timeout=3000):
    p = subprocess.run(cmd, shell=True, cwd=cwd, env=ENV, capture_output=True, text=True, errors="replace", timeout=timeout)
    return p.returncode, (p.stdout + p.stderr)
src, nid = sys.argv[1], sys.argv[2]
checks = sys.argv[3:] or ["C%02d" % i for i in range(1, 21)]
rc, out = sh("git status --porcelain"); assert out.strip() == "", out
meta = {"id": nid, "ran": []}
try:
    rc, out = sh(f"git apply {src}/patch.diff")
    if rc != 0 and os.environ.get("NEUTRAL_BASE"):
        # the change was written against an older commit: evaluate it on that tree
        sh(f"git checkout {os.environ['NEUTRAL_BASE']} -- .")
        rc, out = sh(f"git apply {src}/patch.diff")
        meta["evaluated_on"] = os.environ["NEUTRAL_BASE"]
    if rc != 0:
        print(nid, "patch does not apply:", out[:300]); sys.exit(1)
    rc, out = sh("go build ./... && go test -vet=off -count=1 ./...")
    meta["suite_passes"] = rc == 0
    if rc != 0: print(nid, "SUITE FAILS", out[-400:])
    for cid in checks:
        rc, out = sh(f"./run.sh {cid} quick", cwd="/verif")
        keys = re.findall(r"^\s+key=(\S+)", out, re.M)
        wit = re.findall(r"^\s+witness=(.*)$", out, re.M)
        meta["ran"].append({"check": cid, "exit": rc, "keys": keys[:6], "witness": [w[:600] for w in wit[:2]]})
        if rc != 0: print(f"{nid}: ALARM {cid} exit {rc} keys {keys[:3]}")
finally:
    sh("git reset -q --hard HEAD && git clean -fdq")
dst = f"/verif/neutral/{nid}"; os.makedirs(dst, exist_ok=True)
shutil.copy(f"{src}/patch.diff", dst + "/patch.diff")
if os.path.exists(f"{src}/README.md"): shutil.copy(f"{src}/README.md", dst + "/README.md")
json.dump(meta, open(dst + "/meta.json", "w"), indent=1)
print(nid, "alarms:", [r["check"] for r in meta["ran"] if r["exit"] != 0])
