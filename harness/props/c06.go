package props

import (
	"fmt"
	"reflect"
	"regexp"
	"strings"

	"github.com/osteele/liquid"
	"github.com/osteele/liquid/render"

	"verif/harness/core"
	"verif/harness/gen"
	"verif/harness/ref"
)

func init() {
	core.Register(&core.Prop{
		ID:    "C06",
		Level: "exploration",
		Rule: "EXHAUSTIVE symbol sequences over the 22-symbol alphabet {8 block opens, else/elsif/when, 8 end tags, a plain tag, an object, text} up to length 4 (quick) / 5 (thorough), and over the reduced 9-symbol alphabet {if, for, case, else, when, endif, endfor, endcase, text} up to length 6 / 7; PRNG well-nested templates of depth up to 40 and all their one-edit neighbours (delete / duplicate / swap / replace one symbol). Every symbol is spelled with valid arguments so that only nesting can cause rejection. Every sequence containing a capture symbol is checked a second time (acceptance only) with the capture block spelled as an application-defined block (Engine.RegisterBlock) and the plain tag as an application-defined tag (the block is called xwrap, xif, xcase or xfor: an end tag closes the block it is named after, not one whose name it merely ends with); sequences without a capture are checked a second time with line breaks inside the tags' arguments. Oracle: acceptance iff the reference nesting automaton accepts; rejected templates render nothing; for accepted ones the tree from Template.GetRoot() is isomorphic to the reference tree and a render with unique text markers (what the last capture holds is printed at the end) shows each marker under exactly its enclosing blocks/clauses (three runs: conditions true / one-element loops, conditions false / empty loops, conditions false / nil collections). Non-trivial = the sequence contains at least one block, clause or end tag; distinct = distinct sequences.",
		Exhaustive: func(string) bool { return true },
		Assumptions: []string{
			"comment and raw bodies are opaque up to their first end tag; an unclosed comment or raw is rejected like any other unclosed block",
			"repeated or misordered clauses (else twice, elsif after else) are 'directly inside a block that admits them' and hence accepted; their render semantics are not asserted",
			"text between case and the first when is accepted; its rendering is not asserted",
		},
		Run: runC06,
	})
}

func c06Spell(s ref.Sym, pos int) string {
	switch s {
	case ref.SIf:
		return "{% if t %}"
	case ref.SUnless:
		return "{% unless f %}"
	case ref.SCase:
		return "{% case sel %}"
	case ref.SFor:
		return "{% for x in one %}"
	case ref.STablerow:
		return "{% tablerow x in one %}"
	case ref.SCapture:
		return "{% capture v %}"
	case ref.SElsif:
		return "{% elsif t %}"
	case ref.SWhen:
		return "{% when 1 %}"
	case ref.SPlain:
		return "{% assign q = 1 %}"
	case ref.SObject:
		return "{{ 7 }}"
	case ref.SText:
		return fmt.Sprintf("‹%d›", pos)
	}
	return "{% " + ref.SymName[s] + " %}"
}

func c06Source(seq []ref.Sym) string {
	var sb strings.Builder
	for i, s := range seq {
		sb.WriteString(c06Spell(s, i))
	}
	return sb.String()
}

// c06CustomCheck: the same sequence with the capture block spelled as an application block (RegisterBlock) and the
// plain tag as an application tag (RegisterTag): block structure is the same whoever defined the block.
func c06CustomCheck(c *core.Ctx, e *liquid.Engine, seq []ref.Sym) {
	uses := false
	var sb strings.Builder
	// the application block is called xwrap, or has a name that ends in the name of a standard block (xif, xcase, xfor)
	h := 0
	for _, s := range seq {
		h = h*31 + int(s) + 7
	}
	name := []string{"xwrap", "xif", "xcase", "xfor"}[(h&0x7fffffff)%4]
	for i, s := range seq {
		switch s {
		case ref.SCapture:
			sb.WriteString("{% " + name + " a{{ 1 }} %}")
			uses = true
		case ref.SEndCapture:
			sb.WriteString("{% end" + name + " %}")
			uses = true
		case ref.SPlain:
			sb.WriteString("{% xecho a %}")
		default:
			sb.WriteString(c06Spell(s, i))
		}
	}
	if !uses {
		// no application block in it: the same sequence with line breaks inside the tags' arguments instead
		multi := map[ref.Sym]string{ref.SIf: "{% if t\n and t %}", ref.SUnless: "{% unless f\n\tor f %}", ref.SCase: "{% case\n sel %}", ref.SFor: "{% for x\n in one\n limit: 3 %}", ref.STablerow: "{% tablerow x in one\r\n cols: 2 %}",
			ref.SElsif: "{% elsif t\n or t %}", ref.SWhen: "{% when 1,\n 2 %}", ref.SPlain: "{% assign q =\n 1 %}", ref.SEndIf: "{% endif\n %}", ref.SEndFor: "{%\nendfor %}"}
		any := false
		for i, s := range seq {
			if m, ok := multi[s]; ok {
				sb.WriteString(m)
				any = true
			} else {
				sb.WriteString(c06Spell(s, i))
			}
		}
		if !any {
			return
		}
		// the multi-line spellings are only re-checked where it is cheap: short sequences
		if len(seq) > 4 {
			return
		}
	}
	src := sb.String()
	if !c.Begin("custom-block:" + src) {
		return
	}
	_, accept := ref.Nest(seq)
	_, pr := core.ParsePlain(e, src)
	c.Eval(1)
	c.Obs("custom_block_sequences", 1)
	c.Distinct("custom", src)
	if pr.Panic != "" || pr.Shape != "" {
		c.Violate("parse-panic|custom-block|"+pr.Site, "parsing a block structure panicked", map[string]any{"source": src, "observed": pr.Brief()})
	} else if accept != pr.OK() {
		c.Violate(map[bool]string{true: "rejected-valid|custom-block", false: "accepted-invalid|custom-block"}[accept], "an application-defined block must nest and close like any other block",
			map[string]any{"source": src, "reference_accepts": accept, "observed": pr.Brief()})
	}
}

// shape renders a tree as a canonical string.
func refShape(nodes []*ref.NNode, seq []ref.Sym) string {
	var sb strings.Builder
	for _, n := range nodes {
		switch n.Sym {
		case ref.SText:
			sb.WriteString("T" + c06Spell(ref.SText, n.Pos) + ";")
		case ref.SObject:
			sb.WriteString("O;")
		case ref.SPlain:
			sb.WriteString("G(assign);")
		case ref.SRaw:
			sb.WriteString("R[")
			for _, p := range n.RawBody {
				sb.WriteString(c06Spell(seq[p], p))
			}
			sb.WriteString("];")
		default:
			sb.WriteString("B(" + ref.SymName[n.Sym] + "){" + refShape(n.Body, seq))
			for _, cl := range n.Clauses {
				sb.WriteString("|" + ref.SymName[cl.Sym] + ":" + refShape(cl.Body, seq))
			}
			sb.WriteString("};")
		}
	}
	return sb.String()
}

func engShape(n render.Node) string {
	var sb strings.Builder
	switch x := n.(type) {
	case *render.SeqNode:
		for _, ch := range x.Children {
			sb.WriteString(engShape(ch))
		}
	case *render.TextNode:
		sb.WriteString("T" + x.Source + ";")
	case *render.ObjectNode:
		sb.WriteString("O;")
	case *render.TagNode:
		sb.WriteString("G(" + x.Name + ");")
	case *render.RawNode:
		// the raw text lives in an unexported field; if a refactoring renames it, the body is simply not compared here
		// (the marker render below still checks that it is emitted verbatim)
		rv := reflect.ValueOf(x).Elem().FieldByName("slices")
		if !rv.IsValid() || rv.Kind() != reflect.Slice {
			sb.WriteString("R[*];")
			break
		}
		sb.WriteString("R[")
		for i := 0; i < rv.Len(); i++ {
			sb.WriteString(rv.Index(i).String())
		}
		sb.WriteString("];")
	case *render.BlockNode:
		sb.WriteString("B(" + x.Name + "){")
		for _, ch := range x.Body {
			sb.WriteString(engShape(ch))
		}
		for _, cl := range x.Clauses {
			sb.WriteString("|" + cl.Name + ":")
			for _, ch := range cl.Body {
				sb.WriteString(engShape(ch))
			}
		}
		sb.WriteString("};")
	default:
		sb.WriteString(fmt.Sprintf("?%T;", n))
	}
	return sb.String()
}

// toAST converts the reference tree to the generator AST for the marker render;
// ok=false when the clause layout has no stated render semantics.
func c06AST(nodes []*ref.NNode, seq []ref.Sym) ([]gen.Node, bool) {
	var out []gen.Node
	for _, n := range nodes {
		switch n.Sym {
		case ref.SText:
			out = append(out, gen.Text{S: c06Spell(ref.SText, n.Pos)})
		case ref.SObject:
			out = append(out, gen.Out{E: gen.Lit{V: gen.Int(7)}})
		case ref.SPlain:
			out = append(out, gen.Assign{Name: "q", E: gen.Lit{V: gen.Int(1)}})
		case ref.SRaw:
			s := ""
			for _, p := range n.RawBody {
				s += c06Spell(seq[p], p)
			}
			out = append(out, gen.Raw{S: s})
		case ref.SIf, ref.SUnless:
			body, ok := c06AST(n.Body, seq)
			if !ok {
				return nil, false
			}
			node := gen.If{Unless: n.Sym == ref.SUnless, Conds: []gen.Expr{gen.Var{Name: map[bool]string{false: "t", true: "f"}[n.Sym == ref.SUnless]}}, Bodies: [][]gen.Node{body}}
			for i, cl := range n.Clauses {
				cb, ok := c06AST(cl.Body, seq)
				if !ok {
					return nil, false
				}
				if cl.Sym == ref.SElse {
					if i != len(n.Clauses)-1 {
						return nil, false // else not last: not stated
					}
					node.HasElse, node.Else = true, cb
				} else {
					node.Conds = append(node.Conds, gen.Var{Name: "t"})
					node.Bodies = append(node.Bodies, cb)
				}
			}
			out = append(out, node)
		case ref.SCase:
			if len(n.Body) > 0 {
				return nil, false
			}
			node := gen.Case{Subj: gen.Var{Name: "sel"}}
			for i, cl := range n.Clauses {
				cb, ok := c06AST(cl.Body, seq)
				if !ok {
					return nil, false
				}
				if cl.Sym == ref.SElse {
					if node.HasElse {
						return nil, false // two else clauses: not stated
					}
					// the else clause of a case is the fallback wherever it stands among the when clauses
					_ = i
					node.HasElse, node.Else = true, cb
				} else {
					node.Whens = append(node.Whens, []gen.Expr{gen.Lit{V: gen.Int(1)}})
					node.Bodies = append(node.Bodies, cb)
				}
			}
			out = append(out, node)
		case ref.SFor, ref.STablerow:
			body, ok := c06AST(n.Body, seq)
			if !ok {
				return nil, false
			}
			node := gen.For{Tablerow: n.Sym == ref.STablerow, Var: "x", Coll: gen.Var{Name: "one"}, Body: body}
			if len(n.Clauses) > 1 {
				return nil, false
			}
			if len(n.Clauses) == 1 {
				cb, ok := c06AST(n.Clauses[0].Body, seq)
				if !ok {
					return nil, false
				}
				node.HasElse, node.Else = true, cb
			}
			out = append(out, node)
		case ref.SCapture:
			body, ok := c06AST(n.Body, seq)
			if !ok {
				return nil, false
			}
			out = append(out, gen.Capture{Name: "v", Body: body})
		}
	}
	return out, true
}

func c06Check(c *core.Ctx, e *liquid.Engine, seq []ref.Sym, kind string) {
	src := c06Source(seq)
	if !c.Begin(kind + ":" + src) {
		return
	}
	tree, accept := ref.Nest(seq)
	tpl, pr := core.ParsePlain(e, src)
	c.Eval(1)
	nontrivial := false
	for _, s := range seq {
		if s < ref.SPlain {
			nontrivial = true
		}
	}
	if nontrivial {
		c.Distinct(src)
	}
	if pr.Panic != "" || pr.Shape != "" {
		c.Violate("parse-panic|"+pr.Site, "parsing a block structure panicked", map[string]any{"source": src, "observed": pr.Brief()})
		return
	}
	if accept != pr.OK() {
		what := "a properly nested and closed template was rejected"
		key := "rejected-valid"
		if !accept {
			what, key = "a template whose blocks are not properly nested and closed (or with a stray clause/end tag) was accepted", "accepted-invalid"
			// name the offending construct for the key
			key += "|" + c06Why(seq)
		}
		c.Violate(key, what, map[string]any{"source": src, "reference_accepts": accept, "observed": pr.Brief()})
		return
	}
	// tag names are what they are spelled: the same template with ONE block, clause or end tag written in other letter
	// case no longer has that tag (it has an unknown one), so its blocks are not properly closed and it is rejected
	if accept && c.CaseNo()%5 == 0 {
		toks := ref.Tokens(src, ref.DefaultDelims)
		var tags []int
		for ti, t := range toks {
			// (not the tags of raw and comment blocks: an end tag that no longer is one lets the body run on to the next)
			if t.Kind == ref.Tag && ref.BlockWord(t.Name) && !strings.HasSuffix(t.Name, "raw") && !strings.HasSuffix(t.Name, "comment") {
				tags = append(tags, ti)
			}
		}
		if len(tags) > 0 {
			ti := tags[int(c.CaseNo()/5)%len(tags)]
			name := toks[ti].Name
			mangled := strings.ToUpper(name)
			if c.CaseNo()%2 == 0 {
				mangled = strings.ToUpper(name[:1]) + name[1:]
			}
			var sb strings.Builder
			for tj, t := range toks {
				if tj == ti {
					sb.WriteString(strings.Replace(t.Src, name, mangled, 1))
				} else {
					sb.WriteString(t.Src)
				}
			}
			_, mp := core.ParsePlain(e, sb.String())
			c.Eval(1)
			c.Obs("letter_case_variants", 1)
			if mp.OK() || mp.Panic != "" {
				c.Violate("accepted-invalid|letter-case|"+name, "a template in which one block, clause or end tag is written in other letter case (so that a block is left unclosed, or a clause stands alone) was accepted",
					map[string]any{"source": sb.String(), "original": src, "observed": mp.Brief()})
			}
		}
	}
	if !accept {
		c.Obs("rejected", 1)
		r := core.ParseAndRenderString(e, src, map[string]any{"t": true, "f": false, "sel": 1, "one": []any{1}})
		c.Eval(1)
		if !r.Failed() {
			c.Violate("rejected-but-rendered", "a rejected template must render nothing", map[string]any{"source": src, "observed": r.Brief()})
		}
		return
	}
	c.Obs("accepted", 1)
	// (iii) tree shape
	// adjacent text symbols form one text token
	// a node that holds no text (an empty raw block, or whatever the engine leaves behind for a comment block so that
	// whitespace control stops there) is no part of the nesting
	want, got := strings.ReplaceAll(refShape(tree, seq), "R[];", ""), strings.ReplaceAll(engShape(tpl.GetRoot()), "R[];", "")
	if strings.Contains(got, "R[*];") {
		// the text of raw nodes cannot be read (another field layout): a raw node may then be a raw block or the empty node
		// of a comment, so raw nodes are left out of both shapes; the marker renders below still see every raw body
		reRawNode := regexp.MustCompile(`R\[[^\]]*\];`)
		want, got = reRawNode.ReplaceAllString(want, ""), reRawNode.ReplaceAllString(got, "")
		c.Obs("tree_shape_without_raw_nodes", 1)
	}
	want, got = strings.ReplaceAll(want, "›;T‹", "›‹"), strings.ReplaceAll(got, "›;T‹", "›‹")
	if strings.Contains(got, "?") {
		// a node type this harness does not know (the tree is the engine's own business): the shape is not compared, the
		// marker renders below decide
		c.Obs("tree_shape_not_comparable", 1)
	} else if want != got {
		c.Violate("tree-shape", "the parsed tree does not mirror the textual nesting", map[string]any{"source": src, "expected_tree": want, "observed_tree": got})
		return
	}
	// (iv) marker render, two runs
	ast, ok := c06AST(tree, seq)
	if !ok {
		c.Obs("marker_render_not_stated", 1)
		return
	}
	// what a capture block holds is content rendered under that block: print the captured variable at the end
	for _, sy := range seq {
		if sy == ref.SCapture {
			if t2, p2 := core.ParsePlain(e, src+"[{{ v }}]"); p2.OK() {
				tpl = t2
				src += "[{{ v }}]"
				ast = append(ast, gen.Text{S: "["}, gen.Out{E: gen.Var{Name: "v"}}, gen.Text{S: "]"})
			}
			break
		}
	}
	m := &ref.Model{}
	for run := 0; run < 3; run++ {
		env := gen.Env{{K: "t", V: gen.Bool(run == 0)}, {K: "f", V: gen.Bool(run != 0)}, {K: "sel", V: gen.Int(int64(1 + run))}, {K: "one", V: gen.Ints(1)}}
		if run == 1 {
			env[3].V = gen.Arr()
		}
		if run == 2 {
			env[3].V = gen.Nil // a nil collection selects nothing either: the else clause renders
		}
		exp, st := m.Render(ast, env)
		if st != ref.OK {
			continue
		}
		res := core.Render(tpl, gen.CanonEnv(env))
		c.Eval(1)
		c.Obs("marker_renders", 1)
		if !res.OK() || ref.NormTable(res.Out) != ref.NormTable(exp) {
			c.Violate("marker-render|"+resClass(res), "content was not rendered under exactly the blocks and clauses that enclose it in the source",
				map[string]any{"source": src, "bindings": env.String(), "expected": exp, "observed": res.Brief()})
			return
		}
	}
}

// c06Why classifies why the reference rejects, for violation keys.
func c06Why(seq []ref.Sym) string {
	depth := 0
	for i, s := range seq {
		switch {
		case s == ref.SComment || s == ref.SRaw:
			end := ref.SEndComment
			if s == ref.SRaw {
				end = ref.SEndRaw
			}
			j := i + 1
			for j < len(seq) && seq[j] != end {
				j++
			}
			if j == len(seq) {
				return "unclosed-" + ref.SymName[s]
			}
		case s <= ref.SCapture:
			depth++
		}
	}
	if _, ok := ref.Nest(seq); !ok {
		// find the first prefix that is not a prefix of any accepted sequence is expensive; name the last tag instead
		for i := len(seq) - 1; i >= 0; i-- {
			if seq[i] < ref.SPlain {
				return "near-" + ref.SymName[seq[i]]
			}
		}
	}
	return "other"
}

func runC06(c *core.Ctx) {
	e := liquid.NewEngine()
	ce := liquid.NewEngine()
	RegisterCustom(ce)
	for _, n := range []string{"xif", "xcase", "xfor"} {
		ce.RegisterBlock(n, func(ctx render.Context) (string, error) { return ctx.InnerString() })
	}
	// ---- exhaustive, full alphabet -------------------------------------------------
	k := int(ref.NumSyms)
	total := gen.CountStrings(k, c.Pick(4, 5))
	for i := 0; i < total; i++ {
		if !c.Mine(i) {
			continue
		}
		ix := gen.NthSeq(k, i)
		seq := make([]ref.Sym, len(ix))
		for j, v := range ix {
			seq[j] = ref.Sym(v)
		}
		c06Check(c, e, seq, "exhaustive")
		c06CustomCheck(c, ce, seq)
		if i%100003 == 7 {
			c.Sample(map[string]any{"source": c06Source(seq), "reference_accepts": func() bool { _, ok := ref.Nest(seq); return ok }()})
		}
	}
	// ---- exhaustive, reduced alphabet, longer ------------------------------------------
	red := []ref.Sym{ref.SIf, ref.SFor, ref.SCase, ref.SElse, ref.SWhen, ref.SEndIf, ref.SEndFor, ref.SEndCase, ref.SText}
	total = gen.CountStrings(len(red), c.Pick(6, 7))
	skip := gen.CountStrings(len(red), 3)
	for i := skip; i < total; i++ {
		if !c.Mine(i) {
			continue
		}
		ix := gen.NthSeq(len(red), i)
		seq := make([]ref.Sym, len(ix))
		for j, v := range ix {
			seq[j] = red[v]
		}
		c06Check(c, e, seq, "reduced")
	}
	// ---- random well-nested, depth <= 40, and one-edit neighbours ---------------------------
	n := c.Pick(1500, 40000)
	for i := 0; i < n; i++ {
		if !c.Mine(i) {
			continue
		}
		r := c.Rand(i)
		var seq []ref.Sym
		maxDepth := r.Range(1, 40)
		var genSeq func(depth, budget int)
		genSeq = func(depth, budget int) {
			for budget > 0 && len(seq) < 120 {
				budget--
				switch x := r.Intn(10); {
				case x < 3:
					seq = append(seq, []ref.Sym{ref.SText, ref.SObject, ref.SPlain}[r.Intn(3)])
				case x < 8 && depth < maxDepth:
					open := ref.Sym(r.Intn(6))
					seq = append(seq, open)
					genSeq(depth+1, r.Range(0, 3))
					// clauses
					var cl []ref.Sym
					switch open {
					case ref.SIf:
						cl = []ref.Sym{ref.SElsif, ref.SElse}
					case ref.SUnless, ref.SFor:
						cl = []ref.Sym{ref.SElse}
					case ref.SCase:
						cl = []ref.Sym{ref.SWhen, ref.SWhen, ref.SElse}
					}
					for _, cs := range cl {
						if r.Bool() {
							seq = append(seq, cs)
							genSeq(depth+1, r.Range(0, 2))
						}
					}
					seq = append(seq, ref.SEndIf+(open-ref.SIf))
				case x == 8:
					if r.Bool() {
						seq = append(seq, ref.SComment, ref.SIf, ref.SText, ref.SEndComment)
					} else {
						seq = append(seq, ref.SRaw, ref.SEndFor, ref.SText, ref.SEndRaw)
					}
				default:
					return
				}
			}
		}
		genSeq(0, r.Range(1, 5))
		if len(seq) == 0 {
			seq = []ref.Sym{ref.SText}
		}
		c06Check(c, e, seq, "random-nested")
		c06CustomCheck(c, ce, seq)
		c.ObsMax("max:nesting_depth_generated", int64(maxDepth))
		// one-edit neighbours
		for j := 0; j < len(seq); j++ {
			for ed := 0; ed < 4; ed++ {
				nb := append([]ref.Sym{}, seq...)
				switch ed {
				case 0:
					nb = append(nb[:j], nb[j+1:]...)
				case 1:
					nb = append(nb[:j+1], nb[j:]...)
				case 2:
					if j+1 >= len(nb) {
						continue
					}
					nb[j], nb[j+1] = nb[j+1], nb[j]
				case 3:
					nb[j] = ref.Sym(r.Intn(int(ref.SPlain)))
				}
				c06Check(c, e, nb, "one-edit")
				if ed == 0 || ed == 2 {
					c06CustomCheck(c, ce, nb)
				}
				c.Obs("one_edit_neighbours", 1)
			}
		}
	}
}
