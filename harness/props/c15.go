package props

import (
	"fmt"
	"math"
	"math/big"
	"reflect"
	"sort"
	"strings"

	"github.com/osteele/liquid"
	yaml "gopkg.in/yaml.v2"

	"verif/harness/core"
	"verif/harness/gen"
	"verif/harness/ref"
)

func init() {
	core.Register(&core.Prop{
		ID:    "C15",
		Level: "exploration",
		Rule: "EXHAUSTIVE arrays of length 0..4 over {1,2,3,nil}, {1.5,2.0,2.5,nil}, {\"a\",\"B\",\"c\",nil} and the mixed alphabet {1,2.5,\"a\",nil} (1364 arrays) x every array filter (sort, sort: key, reverse, uniq, compact, concat, first, last, size, join, map) x Go representations ([]any with spare capacity, typed slice, fixed array, range literal where the array is one, Drop of array, yaml.MapSlice, generic slices whose nils are typed nil pointers, generic slices whose elements are Drops of the values); arrays of maps with present/absent/nil keys; PRNG arrays of length 5..8 and filter chains of length 2..4. Every case renders the filter result element by element AND the receiver again afterwards; the Go binding is compared with an identical fresh realisation after the render. Non-trivial = array length >= 2; distinct = distinct (filter, array, representation).",
		Exhaustive: func(string) bool { return true },
		Assumptions: []string{
			"where nil and values of different kinds stand after sort is not asserted (only that no element stands before a smaller one); sort_natural is not asserted beyond 'permutation, input unchanged, no panic'",
			"an ordered map is accepted as the sequence of its values",
		},
		Run: runC15,
	})
}

// dump renders every element of r: nil as ~, otherwise as {{ }} prints it.
const c15Dump = "{% for x in r %}{% if x == nil %}~{% else %}{{ x }}{% endif %},{% endfor %}"

func dumpV(a []gen.V) string {
	var sb strings.Builder
	for _, e := range a {
		if e.K == gen.KNil {
			sb.WriteString("~")
		} else {
			p, _ := gen.Print(e)
			sb.WriteString(p)
		}
		sb.WriteString(",")
	}
	return sb.String()
}

func multiset(a []gen.V) string {
	ss := make([]string, len(a))
	for i, e := range a {
		ss[i] = gen.Canonical(e)
	}
	sort.Strings(ss)
	return strings.Join(ss, ",")
}

// c15Rep realises a logical array in representation kind; ok=false if not expressible.
func c15Rep(kind int, a []gen.V, r *core.Rand) (any, bool) {
	nilFree, k := true, gen.KNil
	hom := true
	for i, e := range a {
		if e.K == gen.KNil {
			nilFree = false
		}
		if i == 0 {
			k = e.K
		} else if e.K != k {
			hom = false
		}
	}
	generic := func() []any {
		out := make([]any, len(a), len(a)+3) // spare capacity: an append in place would be visible
		for i, e := range a {
			out[i] = gen.Canon(e)
		}
		return out
	}
	switch kind {
	case 0:
		return generic(), true
	case 1, 2: // typed slice / fixed array
		if !nilFree || !hom || len(a) == 0 {
			return nil, false
		}
		var sl reflect.Value
		switch k {
		case gen.KInt:
			s := make([]int, len(a))
			for i, e := range a {
				s[i] = int(e.I)
			}
			sl = reflect.ValueOf(s)
		case gen.KFloat:
			s := make([]float64, len(a))
			for i, e := range a {
				s[i] = e.F
			}
			sl = reflect.ValueOf(s)
		case gen.KStr:
			s := make([]string, len(a))
			for i, e := range a {
				s[i] = e.S
			}
			sl = reflect.ValueOf(s)
		default:
			return nil, false
		}
		if kind == 2 {
			av := reflect.New(reflect.ArrayOf(sl.Len(), sl.Type().Elem())).Elem()
			reflect.Copy(av, sl)
			return av.Interface(), true
		}
		return sl.Interface(), true
	case 3:
		return gen.DropV{X: generic()}, true
	case 4:
		return &gen.DropP{X: generic()}, true
	case 6: // generic slice whose nils are typed nil pointers (a nil pointer is nil; what filters do with pointers to values among their elements is not stated)
		if nilFree {
			return nil, false
		}
		out := make([]any, len(a), len(a)+2)
		for i, e := range a {
			switch {
			case e.K == gen.KNil && r.Bool():
				out[i] = (*int)(nil)
			case e.K == gen.KNil:
				out[i] = (*gen.DataStruct)(nil)
			default:
				out[i] = gen.Canon(e)
			}
		}
		return out, true
	case 7: // generic slice whose elements are Drops of the values (a Drop nested in an array is its value, also as filter input)
		if len(a) == 0 {
			return nil, false
		}
		out := make([]any, len(a), len(a)+2)
		for i, e := range a {
			switch {
			case e.K == gen.KNil:
				out[i] = nil
			case i%2 == 0:
				out[i] = gen.DropV{X: gen.Canon(e)}
			default:
				out[i] = &gen.DropP{X: gen.Canon(e)}
			}
		}
		return out, true
	case 5:
		ms := yaml.MapSlice{}
		for i, e := range a {
			ms = append(ms, yaml.MapItem{Key: fmt.Sprintf("k%d", i), Value: gen.Canon(e)})
		}
		return ms, true
	}
	return nil, false
}

type c15 struct {
	c *core.Ctx
	e *liquid.Engine
	t map[string]*liquid.Template
}

func (x *c15) tpl(src string) *liquid.Template {
	if t := x.t[src]; t != nil {
		return t
	}
	t, pr := core.ParsePlain(x.e, src)
	if !pr.OK() {
		x.c.Violate("parse|"+src, "an array filter template does not parse", map[string]any{"source": src, "observed": pr.Brief()})
		return nil
	}
	x.t[src] = t
	return t
}

// sortedOK: no adjacent pair descending under ref <, for all-number or all-string arrays.
func ascending(a []gen.V) bool {
	for i := 0; i+1 < len(a); i++ {
		if ref.Less(a[i+1], a[i]) == ref.True {
			return false
		}
	}
	return true
}

func allOrdered(a []gen.V) bool {
	if len(a) == 0 {
		return true
	}
	num, str := true, true
	for _, e := range a {
		if !e.IsNum() {
			num = false
		}
		if e.K != gen.KStr {
			str = false
		}
	}
	return num || str
}

func parseDump(out string, a []gen.V) ([]gen.V, bool) {
	// map dumped tokens back to logical elements of a (elements print distinctly within one alphabet)
	byText := map[string]gen.V{"~": gen.Nil}
	for _, e := range a {
		if e.K != gen.KNil {
			p, _ := gen.Print(e)
			byText[p] = e
		}
	}
	if out == "" {
		return []gen.V{}, true
	}
	if !strings.HasSuffix(out, ",") {
		return nil, false
	}
	var res []gen.V
	for _, tok := range strings.Split(strings.TrimSuffix(out, ","), ",") {
		v, ok := byText[tok]
		if !ok {
			return nil, false
		}
		res = append(res, v)
	}
	return res, true
}

func (x *c15) array(a []gen.V, kind int, idx int) {
	c := x.c
	r := c.Rand(idx)
	bind, ok := c15Rep(kind, a, r)
	if !ok {
		return
	}
	fresh, _ := c15Rep(kind, a, c.Rand(idx))
	desc := gen.Describe(bind)
	if !c.Begin("array:" + desc) {
		return
	}
	other := []gen.V{gen.Int(9), gen.Nil, gen.Str("z")}
	recvDump := dumpV(a)
	if kind == 5 { // iterating an ordered map yields [key, value] pairs; each prints as key followed by value
		recvDump = ""
		for i, e := range a {
			p, _ := gen.Print(e)
			recvDump += fmt.Sprintf("k%d%s,", i, p)
		}
	}
	type lawFn func(got []gen.V, out string) string // "" = ok, else the broken law
	exact := func(want []gen.V) lawFn {
		return func(_ []gen.V, out string) string {
			if out != dumpV(want) {
				return "expected exactly " + dumpV(want)
			}
			return ""
		}
	}
	uniqWant := []gen.V{}
	for _, e := range a {
		dup := false
		for _, u := range uniqWant {
			if ref.Equal(u, e) == ref.True {
				dup = true
			}
		}
		if !dup {
			uniqWant = append(uniqWant, e)
		}
	}
	compactWant := []gen.V{}
	for _, e := range a {
		if e.K != gen.KNil {
			compactWant = append(compactWant, e)
		}
	}
	rev := make([]gen.V, len(a))
	for i, e := range a {
		rev[len(a)-1-i] = e
	}
	filters := []struct {
		name, expr string
		law        lawFn
	}{
		{"sort", "a | sort", func(got []gen.V, out string) string {
			if got == nil {
				return "result is not made of the input's elements"
			}
			if multiset(got) != multiset(a) {
				return "sort must return a permutation of its input"
			}
			// ascending: no element stands before one that is smaller than it. Where nil and values of different kinds
			// go is not stated (no order is defined between them), but they do not excuse 3 standing before 1
			for i := range got {
				for j := i + 1; j < len(got); j++ {
					if ref.Less(got[j], got[i]) == ref.True {
						return "sort must return ascending order"
					}
				}
			}
			return ""
		}},
		{"sort_natural", "a | sort_natural", func(got []gen.V, out string) string {
			if got == nil || multiset(got) != multiset(a) {
				return "sort_natural must return a permutation of its input"
			}
			return ""
		}},
		{"reverse", "a | reverse", exact(rev)},
		{"uniq", "a | uniq", exact(uniqWant)},
		{"compact", "a | compact", exact(compactWant)},
		{"concat", "a | concat: o", exact(append(append([]gen.V{}, a...), other...))},
		{"concat-self", "a | concat: a", exact(append(append([]gen.V{}, a...), a...))},
	}
	for _, f := range filters {
		src := "{% assign r = " + f.expr + " %}" + c15Dump + "|{% assign r = a %}" + c15Dump
		t := x.tpl(src)
		if t == nil {
			continue
		}
		b := map[string]any{"a": bind, "o": gen.Canon(gen.Arr(other...))}
		res := core.Render(t, b)
		c.Eval(1)
		c.Obs("filter_applications", 1)
		if len(a) >= 2 {
			c.Distinct(f.name, desc)
		}
		viol := func(law string) {
			c.Violate(f.name+"|"+strings.SplitN(law, " ", 4)[0]+"|rep"+fmt.Sprint(kind), "array filter "+f.name+": "+law,
				map[string]any{"source": src, "a": desc, "observed": res.Brief(), "logical": gen.Arr(a...).String()})
		}
		if !res.OK() {
			viol("the filter failed or panicked on an array it must accept")
			continue
		}
		parts := strings.SplitN(res.Out, "|", 2)
		if len(parts) != 2 {
			viol("malformed output")
			continue
		}
		if parts[1] != recvDump {
			viol("the array the filter was applied to has changed (second rendering of the receiver differs)")
		}
		all := append(append([]gen.V{}, a...), other...)
		got, _ := parseDump(parts[0], all)
		if msg := f.law(got, parts[0]); msg != "" {
			viol(msg)
		}
		if core.Snapshot(bind) != core.Snapshot(fresh) { // compares slices up to their capacity
			viol("the caller's Go binding was modified by the render")
			bind, _ = c15Rep(kind, a, c.Rand(idx))
		}
	}
	// results stored with assign must not alias each other or the receiver
	{
		src := "{% assign x = a | compact %}{% assign y = x | concat: o %}{% assign z = x | concat: a %}{% assign w = x | concat: o | concat: o %}" +
			"{% assign r = y %}" + c15Dump + "|{% assign r = z %}" + c15Dump + "|{% assign r = x %}" + c15Dump + "|{% assign r = a %}" + c15Dump
		if t := x.tpl(src); t != nil {
			res := core.Render(t, map[string]any{"a": bind, "o": gen.Canon(gen.Arr(other...))})
			c.Eval(1)
			c.Obs("filter_applications", 1)
			want := dumpV(append(append([]gen.V{}, compactWant...), other...)) + "|" + dumpV(append(append([]gen.V{}, compactWant...), a...)) + "|" + dumpV(compactWant) + "|" + recvDump
			if kind == 5 {
				want = ""
			}
			if want != "" && (!res.OK() || res.Out != want) {
				c.Violate("aliasing|rep"+fmt.Sprint(kind), "results of array filters stored with assign changed when another filter was applied to the same array later (append in place)",
					map[string]any{"source": src, "a": desc, "expected": want, "observed": res.Brief()})
			}
			if core.Snapshot(bind) != core.Snapshot(fresh) {
				c.Violate("aliasing-binding|rep"+fmt.Sprint(kind), "the caller's Go binding (including the spare capacity of its slices) was modified by the render", map[string]any{"source": src, "a": desc})
				bind, _ = c15Rep(kind, a, c.Rand(idx))
			}
		}
	}
	// scalar-valued filters
	first, last := "", ""
	if len(a) > 0 {
		first, _ = gen.Print(a[0])
		last, _ = gen.Print(a[len(a)-1])
	}
	var joinParts []string
	for _, e := range a {
		if e.K != gen.KNil {
			p, _ := gen.Print(e)
			joinParts = append(joinParts, p)
		}
	}
	src := "{{ a | first }}|{{ a | last }}|{{ a | size }}|{{ a | join: '-' }}|{{ a | join: '' }}|{{ a | reverse | first }}|{{ a.first }}|{{ a[0] }}|{{ a | compact | size }}"
	want := fmt.Sprintf("%s|%s|%d|%s|%s|%s|%s|%s|%d", first, last, len(a), strings.Join(joinParts, "-"), strings.Join(joinParts, ""), last, first, first, len(joinParts))
	if kind == 5 { // ordered map: lookup is by key, not by position
		src = "{{ a | first }}|{{ a | last }}|{{ a | size }}|{{ a | join: '-' }}|{{ a | join: '' }}|{{ a | reverse | first }}|{{ a | compact | size }}"
		want = fmt.Sprintf("%s|%s|%d|%s|%s|%s|%d", first, last, len(a), strings.Join(joinParts, "-"), strings.Join(joinParts, ""), last, len(joinParts))
	}
	if t := x.tpl(src); t != nil {
		res := core.Render(t, map[string]any{"a": bind})
		c.Eval(1)
		c.Obs("filter_applications", 1)
		if !res.OK() || res.Out != want {
			c.Violate("scalar-filters|rep"+fmt.Sprint(kind)+"|"+resClass(res), "first/last/size/join must agree with indexing, element count and separator joining (nils skipped)",
				map[string]any{"source": src, "a": desc, "expected": want, "observed": res.Brief()})
		}
	}
	// the caller edits its own slice in place between two renders: the second render must see the new contents
	if (kind == 0 || kind == 1) && len(a) >= 2 {
		rv := reflect.ValueOf(bind)
		x0, x1 := reflect.ValueOf(rv.Index(0).Interface()), reflect.ValueOf(rv.Index(len(a)-1).Interface())
		if x0.IsValid() && x1.IsValid() {
			rv.Index(0).Set(x1)
			rv.Index(len(a) - 1).Set(x0)
			na := append([]gen.V{}, a...)
			na[0], na[len(a)-1] = a[len(a)-1], a[0]
			var jp []string
			for _, e := range na {
				if e.K != gen.KNil {
					p, _ := gen.Print(e)
					jp = append(jp, p)
				}
			}
			f0, _ := gen.Print(na[0])
			src2 := "{{ a | first }}|{{ a | join: '-' }}|{{ a | reverse | last }}|{{ a[0] }}|{{ a | sort | size }}"
			want2 := fmt.Sprintf("%s|%s|%s|%s|%d", f0, strings.Join(jp, "-"), f0, f0, len(na))
			if t := x.tpl(src2); t != nil {
				res := core.Render(t, map[string]any{"a": bind})
				c.Eval(1)
				c.Obs("in_place_edit_sequences", 1)
				if !res.OK() || res.Out != want2 {
					c.Violate("stale-after-in-place-edit|rep"+fmt.Sprint(kind), "after the caller edited its slice in place, array filters still computed on the old contents",
						map[string]any{"source": src2, "a_before": desc, "a_after": gen.Describe(bind), "expected": want2, "observed": res.Brief()})
				}
			}
		}
	}
	if idx%997 == 5 {
		c.Sample(map[string]any{"array": desc, "filters": "sort sort_natural reverse uniq compact concat first last size join (+ receiver re-rendered, Go binding compared)"})
	}
}

func (x *c15) mapsArray(idx int) {
	c := x.c
	r := c.Rand(idx, 15)
	n := r.Range(0, 6)
	kind := idx % 4      // key values: 0 integers (negative, zero, positive), 1 strings (the empty string included), 2 floats, 3 a mix of the three
	kname := "k"         // the key sorted by; "size" is an ordinary key here although maps also have a size property
	if (idx/3)%4 == 3 {
		kname = "size"
	}
	typed := r.P(1, 3) && kind != 3 // []map[string]int / string / float64: a zero value is a value, not a missing key
	var objs []gen.V
	var typedI []map[string]int
	var typedS []map[string]string
	var typedF []map[string]float64
	for i := 0; i < n; i++ {
		id := gen.Int(int64(i))
		mode := r.Intn(5)
		if typed && mode == 1 {
			mode = 0 // a typed map cannot hold nil
		}
		ti, ts, tf := map[string]int{"id": i}, map[string]string{"id": fmt.Sprint(i)}, map[string]float64{"id": float64(i)}
		switch mode {
		case 0:
			objs = append(objs, gen.Map(gen.KV{K: "id", V: id})) // key absent
		case 1:
			objs = append(objs, gen.Map(gen.KV{K: "id", V: id}, gen.KV{K: kname, V: gen.Nil}))
		default:
			var kv gen.V
			vk := kind
			if kind == 3 {
				vk = r.Intn(3)
			}
			switch vk {
			case 0:
				v := r.Range(-3, 4)
				kv, ti[kname] = gen.Int(int64(v)), v
			case 1:
				v := []string{"", "a", "b", "c", "d", "B"}[r.Intn(6)]
				kv, ts[kname] = gen.Str(v), v
			default:
				v := []float64{-2.5, -1, 0, 0.5, 1.5, 3}[r.Intn(6)]
				kv, tf[kname] = gen.Float(v), v
			}
			objs = append(objs, gen.Map(gen.KV{K: "id", V: id}, gen.KV{K: kname, V: kv}, gen.KV{K: "has", V: gen.Bool(true)}))
		}
		typedI, typedS, typedF = append(typedI, ti), append(typedS, ts), append(typedF, tf)
	}
	lv := gen.Arr(objs...)
	var bind any = gen.Canon(lv)
	if typed {
		switch kind {
		case 0:
			bind = typedI
		case 1:
			bind = typedS
		default:
			bind = typedF
		}
	} else if r.P(1, 3) {
		bind = gen.Realise(lv, r, gen.Rep{Typed: true}, true)
	} else if r.P(1, 2) {
		// the records as a YAML decoder delivers them (map[any]any), as ordered maps, or as Drops of maps
		recs := make([]any, len(objs))
		for i, o := range objs {
			switch r.Intn(3) {
			case 0:
				m := map[any]any{}
				for _, kv := range o.M {
					m[kv.K] = gen.Canon(kv.V)
				}
				recs[i] = m
			case 1:
				ms := yaml.MapSlice{}
				for _, kv := range o.M {
					ms = append(ms, yaml.MapItem{Key: kv.K, Value: gen.Canon(kv.V)})
				}
				recs[i] = ms
			default:
				recs[i] = gen.DropV{X: gen.Canon(o)}
			}
		}
		bind = recs
		c.Obs("maps_array_other_record_types", 1)
	}
	desc := gen.Describe(bind) + " key=" + kname
	if !c.Begin("maps-array:" + desc) {
		return
	}
	// an entry has the key when its own map has it with a non-nil value: x.has marks those in the generic
	// representation; in the typed one the presence is recovered from the id
	src := "{% assign r = a | sort: '" + kname + "' %}{% for x in r %}{{ x.id }}:{{ x['" + kname + "'] }},{% endfor %}|{{ a | map: 'id' | join: ',' }}|{% for x in a %}{{ x.id }},{% endfor %}"
	if kname == "k" {
		src += "|{{ a | map: 'k' | join: ',' }}"
	}
	t := x.tpl(src)
	if t == nil {
		return
	}
	res := core.Render(t, map[string]any{"a": bind})
	c.Eval(1)
	c.Obs("maps_array_cases", 1)
	if typed {
		c.Obs("maps_array_typed_maps", 1)
	}
	if kname == "size" {
		c.Obs("maps_array_size_key", 1)
	}
	if n >= 2 {
		c.Distinct("maps", desc)
	}
	viol := func(law string) {
		c.Violate("sort-key|"+strings.SplitN(law, " ", 3)[0], "array filters on arrays of maps: "+law, map[string]any{"source": src, "a": desc, "observed": res.Brief()})
	}
	if !res.OK() {
		viol("failed or panicked")
		return
	}
	parts := strings.Split(res.Out, "|")
	if len(parts) < 3 {
		viol("malformed output")
		return
	}
	// sort: key  -> permutation, entries lacking the key first, the rest ascending by key
	keyOf := map[string]gen.V{}
	for i, o := range objs {
		if v, ok := o.Get(kname); ok && v.K != gen.KNil {
			keyOf[fmt.Sprint(i)] = v
		}
	}
	var ids []string
	for _, tok := range strings.Split(strings.TrimSuffix(parts[0], ","), ",") {
		if tok == "" {
			continue
		}
		ids = append(ids, strings.SplitN(tok, ":", 2)[0])
	}
	if len(ids) != n {
		viol("sort: key must return a permutation (wrong number of elements)")
	} else {
		seen := map[string]bool{}
		for _, id := range ids {
			seen[id] = true
		}
		if len(seen) != n {
			viol("sort: key must return a permutation (duplicate or missing elements)")
		}
		sawKey := false
		var prev gen.V
		var seenKeys []gen.V
		for _, id := range ids {
			k, has := keyOf[id]
			if !has {
				if sawKey {
					viol("sort: key must put entries lacking the key first")
				}
				continue
			}
			if sawKey && ref.Less(k, prev) == ref.True {
				viol("sort: key must order the rest ascending by key")
			}
			// ... also across records whose keys are of another kind in between: no record stands before one with a smaller key
			for _, earlier := range seenKeys {
				if ref.Less(k, earlier) == ref.True {
					viol("sort: key must order the rest ascending by key (a record stands before one with a smaller key)")
					break
				}
			}
			seenKeys = append(seenKeys, k)
			sawKey, prev = true, k
		}
	}
	// map: per-element property lookup; join skips nils
	var wantK, wantID, wantOrder []string
	for _, o := range objs {
		if v, ok := o.Get("k"); ok && v.K != gen.KNil {
			p, _ := gen.Print(v)
			wantK = append(wantK, p)
		}
		id, _ := o.Get("id")
		p, _ := gen.Print(id)
		wantID = append(wantID, p)
		wantOrder = append(wantOrder, p+",")
	}
	if parts[1] != strings.Join(wantID, ",") || len(parts) == 4 && parts[3] != strings.Join(wantK, ",") {
		viol("map must agree with per-element property lookup")
	}
	if parts[2] != strings.Join(wantOrder, "") {
		viol("the array the filters were applied to has changed")
	}
}

func (x *c15) chain(idx int) {
	c := x.c
	r := c.Rand(idx, 16)
	n := r.Range(5, 8)
	alpha := [][]gen.V{{gen.Int(1), gen.Int(2), gen.Int(3), gen.Int(-1)}, {gen.Str("a"), gen.Str("B"), gen.Str("c"), gen.Str("")}, {gen.Float(1.5), gen.Float(2), gen.Float(2.5), gen.Float(-0.5)}}[r.Intn(3)]
	a := make([]gen.V, n)
	for i := range a {
		a[i] = alpha[r.Intn(len(alpha))]
		if r.P(1, 8) {
			a[i] = gen.Nil
		}
	}
	cur := append([]gen.V{}, a...)
	expr := "a"
	ok := true
	for k := r.Range(2, 4); k > 0; k-- {
		switch r.Intn(5) {
		case 0:
			expr += " | reverse"
			for i, j := 0, len(cur)-1; i < j; i, j = i+1, j-1 {
				cur[i], cur[j] = cur[j], cur[i]
			}
		case 1:
			expr += " | compact"
			nc := []gen.V{}
			for _, e := range cur {
				if e.K != gen.KNil {
					nc = append(nc, e)
				}
			}
			cur = nc
		case 2:
			expr += " | uniq"
			nc := []gen.V{}
			for _, e := range cur {
				dup := false
				for _, u := range nc {
					if ref.Equal(u, e) == ref.True {
						dup = true
					}
				}
				if !dup {
					nc = append(nc, e)
				}
			}
			cur = nc
		case 3:
			expr += " | concat: a"
			cur = append(cur, a...)
		case 4:
			expr += " | sort"
			for _, e := range cur {
				if e.K == gen.KNil {
					ok = false // order of nil under sort is not stated
				}
			}
			sort.SliceStable(cur, func(i, j int) bool { return ref.Less(cur[i], cur[j]) == ref.True })
		}
	}
	if !ok {
		c.Skip("chain sorts an array containing nil")
		return
	}
	kind := r.Intn(5)
	bind, okr := c15Rep(kind, a, r)
	if !okr {
		bind, _ = c15Rep(0, a, r)
	}
	desc := gen.Describe(bind)
	src := "{% assign r = " + expr + " %}" + c15Dump + "|{% assign r = a %}" + c15Dump
	if !c.Begin("chain:" + src + " a=" + desc) {
		return
	}
	res := core.Run(x.e, src, map[string]any{"a": bind})
	c.Eval(1)
	c.Obs("chain_cases", 1)
	c.Distinct("chain", expr, desc)
	want := dumpV(cur) + "|" + dumpV(a)
	if !res.OK() || res.Out != want {
		c.Violate("chain|"+resClass(res), "a chain of array filters differs from composing their documented functions (or changed its input)",
			map[string]any{"source": src, "a": desc, "expected": want, "observed": res.Brief()})
	}
}

func runC15(c *core.Ctx) {
	x := &c15{c: c, e: liquid.NewEngine(), t: map[string]*liquid.Template{}}
	alphas := [][]gen.V{
		{gen.Int(1), gen.Int(2), gen.Int(3), gen.Nil},
		{gen.Float(1.5), gen.Float(2), gen.Float(2.5), gen.Nil},
		{gen.Str("a"), gen.Str("B"), gen.Str("c"), gen.Nil},
		{gen.Int(1), gen.Float(2.5), gen.Str("a"), gen.Nil},
		{gen.Float(1), gen.Int(1), gen.Int(2), gen.Float(2)}, // equal numbers of different kinds are one element for uniq
	}
	idx := 0
	total := gen.CountStrings(4, 4)
	for ai, alpha := range alphas {
		for i := 0; i < total; i++ {
			seq := gen.NthSeq(4, i)
			a := make([]gen.V, len(seq))
			for j, s := range seq {
				a[j] = alpha[s]
			}
			for kind := 0; kind < 8; kind++ {
				idx++
				if !c.Mine(idx) {
					continue
				}
				x.array(a, kind, idx)
			}
			_ = ai
		}
	}
	// integers of mixed width and signedness: sort orders them by numeric value, uniq/first/last/size see numbers
	for i := 0; i < c.Pick(400, 6000); i++ {
		idx++
		if !c.Mine(idx) {
			continue
		}
		r := c.Rand(idx, 17)
		pool := []struct {
			g any
			v *big.Int
		}{{uint8(200), big.NewInt(200)}, {uint8(3), big.NewInt(3)}, {-7, big.NewInt(-7)}, {uint64(math.MaxUint64), new(big.Int).SetUint64(math.MaxUint64)}, {-1, big.NewInt(-1)}, {uint(3), big.NewInt(3)}, {2, big.NewInt(2)},
			{int64(math.MinInt64), big.NewInt(math.MinInt64)}, {uint64(1) << 63, new(big.Int).SetUint64(1 << 63)}, {int8(-128), big.NewInt(-128)}, {uint16(0), big.NewInt(0)}, {int32(200), big.NewInt(200)}, {gen.NInt(-3), big.NewInt(-3)}}
		n := r.Range(2, 6)
		arr := make([]any, n)
		vals := make([]*big.Int, n)
		for j := range arr {
			p := pool[r.Intn(len(pool))]
			arr[j], vals[j] = p.g, p.v
		}
		desc := gen.Describe(arr)
		if !c.Begin("mixed-sign:" + desc) {
			continue
		}
		sorted := append([]*big.Int{}, vals...)
		sort.SliceStable(sorted, func(a, b int) bool { return sorted[a].Cmp(sorted[b]) < 0 })
		var ws []string
		for _, v := range sorted {
			ws = append(ws, v.String())
		}
		// concat of a typed unsigned slice and a typed signed one as well
		res := core.Run(x.e, "{{ a | sort | join: ',' }}|{{ a | size }}|{{ u | concat: s | sort | join: ',' }}", map[string]any{"a": arr, "u": []uint8{3, 1, 200}, "s": []int{2, -1, -7}})
		c.Eval(1)
		c.Obs("mixed_sign_sort_cases", 1)
		c.Distinct("mixedsign", desc)
		want := strings.Join(ws, ",") + "|" + fmt.Sprint(n) + "|-7,-1,1,2,3,200"
		if !res.OK() || res.Out != want {
			c.Violate("sort|mixed-widths", "sort must order integers of mixed width and signedness ascending by numeric value", map[string]any{"a": desc, "expected": want, "observed": res.Brief()})
		}
	}
	// records: two maps are the same element only when they have the same entries
	if c.Shard == 7%c.NShards && c.Begin("uniq-over-records") {
		full, part := map[string]any{"id": 1, "tag": "x"}, map[string]any{"id": 1}
		for k, cs := range []struct {
			a    []any
			want string
		}{{[]any{full, part, full}, "2"}, {[]any{part, full, part}, "2"}, {[]any{full, map[string]any{"id": 1, "tag": "x"}}, "1"}, {[]any{map[string]any{}, full, map[string]any{}}, "2"},
			{[]any{full, map[string]any{"id": 1, "tag": "y"}, part}, "3"}} {
			res := core.Run(x.e, "{{ a | uniq | size }}", map[string]any{"a": cs.a})
			c.Eval(1)
			c.Obs("uniq_record_cases", 1)
			c.Distinct("uniqrec", fmt.Sprint(k))
			if !res.OK() || res.Out != cs.want {
				c.Violate("uniq|records", "uniq keeps the first occurrence of each distinct element: a record with fewer (or other) entries is another element", map[string]any{"a": gen.Describe(cs.a), "expected": cs.want, "observed": res.Brief()})
			}
		}
	}
	// unallocated (nil) Go slices and maps among the elements are empty collections, not nils: compact keeps them
	if c.Shard == 6%c.NShards && c.Begin("nil-collections-are-not-nil") {
		for k, cs := range []struct {
			a    any
			want string
		}{{[]any{[]int(nil), map[string]any(nil), []any{}, 1, nil}, "4|5|4"}, {[][]int{{1, 2}, nil, {}, {3}}, "4|4|4"}, {[]map[string]any{nil, {"k": 1}, {}}, "3|3|3"}, {[]any{[]any(nil), nil, nil}, "1|3|1"},
			{[]any{gen.DropV{X: []int(nil)}, nil, map[string]int(nil)}, "2|3|2"}} {
			res := core.Run(x.e, "{{ a | compact | size }}|{{ a | size }}|{% assign n = 0 %}{% for e in a %}{% if e != nil %}{% assign n = n | plus: 1 %}{% endif %}{% endfor %}{{ n }}", map[string]any{"a": cs.a})
			c.Eval(1)
			c.Obs("nil_collection_cases", 1)
			c.Distinct("nilcoll", fmt.Sprint(k))
			if !res.OK() || res.Out != cs.want {
				c.Violate("compact|nil-collections", "compact removes exactly the nils: an unallocated slice or map among the elements is an empty collection and stays", map[string]any{"a": gen.Describe(cs.a), "expected": cs.want, "observed": res.Brief()})
			}
		}
	}
	// range literals are arrays too
	for lo := -1; lo <= 2; lo++ {
		for hi := lo - 1; hi <= lo+3; hi++ {
			idx++
			if !c.Mine(idx) || !c.Begin(fmt.Sprintf("range:(%d..%d)", lo, hi)) {
				continue
			}
			var items, revItems []string
			for v := lo; v <= hi; v++ {
				items = append(items, fmt.Sprint(v))
				revItems = append([]string{fmt.Sprint(v)}, revItems...)
			}
			rng := fmt.Sprintf("(%d..%d)", lo, hi)
			src := "{{ " + rng + " | reverse | join: ',' }}|{{ " + rng + " | size }}|{{ " + rng + " | first }}|{{ " + rng + " | last }}|{{ " + rng + " | sort | join: ',' }}|{{ " + rng + " | concat: " + rng + " | size }}|{{ " + rng + " | uniq | join: ',' }}|{{ " + rng + " | compact | join: ',' }}"
			f, l := "", ""
			if len(items) > 0 {
				f, l = items[0], items[len(items)-1]
			}
			want := fmt.Sprintf("%s|%d|%s|%s|%s|%d|%s|%s", strings.Join(revItems, ","), len(items), f, l, strings.Join(items, ","), 2*len(items), strings.Join(items, ","), strings.Join(items, ","))
			expectOut(c, x.e, src, nil, want, "range-as-array", "array filters must accept ranges exactly as they accept arrays", nil)
			c.Obs("range_cases", 1)
			c.Distinct("range", rng)
		}
	}
	n := c.Pick(100000, 2000000)
	for i := 0; i < n; i++ {
		idx++
		if !c.Mine(idx) {
			continue
		}
		if i%2 == 0 {
			x.mapsArray(idx)
		} else {
			x.chain(idx)
		}
	}
}
