package props

import (
	"bytes"
	"errors"
	"fmt"
	"strings"

	"github.com/osteele/liquid"
	"github.com/osteele/liquid/render"

	"verif/harness/core"
	"verif/harness/gen"
)

func init() {
	core.Register(&core.Prop{
		ID:    "C20",
		Level: "fault_enumeration",
		Rule: "for every generated template (all standard tags incl. tablerow, cycle, include from the cache, capture, nested loops, raw/comment, every trim-marker position, a harness-registered tag and block, and application tags/blocks calling ExpandTagArg, InnerString, RenderChildren, RenderFile, EvaluateString, Set/Get): one fault-free FRender with a counting writer gives W Write calls and output O; then for EVERY k in 0..W-1 and five fault shapes (accept nothing; accept half; accept all but the last byte; fail once then accept again; accept half, fail, then accept again) the render is repeated with the injecting writer through FRender or ParseAndFRender. Non-trivial = a (template, k, shape) whose fault was actually reached; distinct = distinct (template source, k, shape).",
		Exhaustive: func(string) bool { return true },
		Assumptions: []string{
			"the injected error is a unique sentinel; 'carrying that failure' means: reachable through the Cause()/Unwrap() chain of the returned SourceError",
			"k = W (fault never reached) must reproduce O: checks that the injector is transparent",
		},
		MinEvents: map[string]int64{"faults_injected": 1000},
		Run:       runC20,
	})
}

type faultWriter struct {
	failAt  int
	shape   int // 0 nothing, 1 half, 2 nothing but later writes succeed, 3 all but the last byte, 4 half and later writes succeed
	calls   int
	failed  bool
	after   int
	acc     bytes.Buffer
	err     error
	maxCall int
}

func (w *faultWriter) Write(p []byte) (int, error) {
	if w.failed {
		w.after++
		if w.shape == 2 || w.shape == 4 {
			w.acc.Write(p)
			return len(p), nil
		}
		return 0, w.err
	}
	if w.calls == w.failAt {
		w.failed = true
		if w.shape == 1 || w.shape == 3 || w.shape == 4 {
			n := len(p) / 2
			if w.shape == 3 && len(p) > 0 { // accept everything but the last byte
				n = len(p) - 1
			}
			w.acc.Write(p[:n])
			return n, w.err
		}
		return 0, w.err
	}
	w.calls++
	w.acc.Write(p)
	return len(p), nil
}

func carries(se liquid.SourceError, sentinel error) bool {
	return carriesHow(se, sentinel, true)
}

// carriesStrict: the sentinel is reachable through the Cause()/Unwrap() chain (its text in the message is not enough).
func carriesStrict(se liquid.SourceError, sentinel error) bool {
	return carriesHow(se, sentinel, false)
}

func carriesHow(se liquid.SourceError, sentinel error, textCounts bool) bool {
	if se == nil {
		return false
	}
	if textCounts && strings.Contains(se.Error(), sentinel.Error()) {
		return true
	}
	var e error = se
	for i := 0; i < 12 && e != nil; i++ {
		if e == sentinel || errors.Is(e, sentinel) {
			return true
		}
		switch x := e.(type) {
		case interface{ Cause() error }:
			e = x.Cause()
		case interface{ Unwrap() error }:
			e = x.Unwrap()
		default:
			e = nil
		}
	}
	return false
}

func c20Engine() *liquid.Engine {
	e := liquid.NewEngine()
	e.RegisterTag("utag", func(render.Context) (string, error) { return "<utag>", nil })
	e.RegisterBlock("ublock", func(ctx render.Context) (string, error) {
		s, err := ctx.InnerString()
		return "[" + s + "]", err
	})
	RegisterCustom(e)
	for name, src := range map[string]string{
		"inc/a.html": "A{{ n }}{% for i in (1..2) %}{{ i }},{% endfor %}",
		"inc/b.html": " {%- assign q = 5 -%} B{{ q }} ",
		"inc/c.html": "plain text only\n",
	} {
		if _, err := e.ParseTemplateAndCache([]byte(src), "vcache/"+name, 1); err != nil {
			panic(err)
		}
	}
	return e
}

var c20Fixed = []string{
	// literal text of a page and more in one piece (one text token, one Write), between and after tags
	strings.Repeat("p", 4096) + "{{ n }}" + strings.Repeat("q", 5000) + "{% if t %}" + strings.Repeat("0123456789", 900) + "{% endif %}tail", "{{ s }}" + strings.Repeat("long text ", 1000),
	"{% for i in (1..2) %}" + strings.Repeat("x", 4200) + "{{ i }}{% endfor %}" + strings.Repeat("y", 8192),
	// loops in which an earlier iteration was cut short by continue (or an inner loop left by break) before the failing write
	"{% for i in (1..4) %}{% if i == 1 %}{% continue %}{% endif %}<{{ i }}>{% endfor %}", "{% for i in (1..3) %}{% for j in (1..2) %}{% if j == 1 %}{% continue %}{% endif %}{{ i }}{{ j }};{% endfor %}|{% endfor %}end",
	"{% tablerow i in (1..4) cols: 2 %}{% if i == 2 %}{% continue %}{% endif %}{{ i }}{% endtablerow %}", "{% for i in (1..3) %}{% for j in (1..3) %}{% if j == 2 %}{% break %}{% endif %}{{ j }}{% endfor %}<{{ i }}>{% endfor %}",
	"{% for i in (1..3) %}{% if i == 2 %}{% continue %}{% endif %}{% endfor %}after the loop {{ n }}", "{% for i in (1..2) %}{% xwrap w %}{% continue %}{% endxwrap %}{% endfor %}{% for i in (1..2) %}[{{ i }}]{% endfor %}",
	"", "text only", "{{ s }}", "a{{ s }}b{{ n }}c", "{{- s -}} x {{- n -}}", "  {%- if t -%} yes {%- endif -%}  ",
	"{% tablerow i in arr cols:2 %}{{ i }}{% endtablerow %}", "{% tablerow i in (1..5) %} {{- i -}} {% endtablerow %}tail",
	"{% for i in (1..3) %}{% cycle 'a','b' %}{% endfor %}", "{% raw %}{{ raw }}{% endraw %}", "x {%- raw -%} r {%- endraw -%} y",
	"{% capture c %}in{{ s }}{% endcapture %}{{ c }}{{ c }}", "{% include 'inc/a.html' %}|{% include 'inc/b.html' %}|{% include 'inc/c.html' %}",
	"{% utag %}{% ublock %}in{{ n }}{% endublock %}{% utag %}", "{% for i in (1..2) %}{% for j in (1..2) %}{{ i }}{{ j }} {% endfor %}\n{% endfor %}",
	"{% if fa %}{% else %}e{% endif %}{% unless t %}{% else %}u{% endunless %}{% case n %}{% when 1 %}one{% else %}other{% endcase %}",
	"a {%- comment -%} c {%- endcomment -%} b", "{% for i in arr %}{{ i }}{% if forloop.index == 2 %}{% break %}{% endif %}{% endfor %}done",
	"{% for i in earr %}{% else %}empty{% endfor %} {{- 1 }}", "{{ arr | join: ',' }}{{ sarr | sort | first }}{{ 'x' | append: s }}",
	"{% ublock %}{% tablerow i in (1..2) %}{{ i }}{% endtablerow %}{% endublock %}", "text {{- nothing -}} text",
	"a long run of literal text, well over sixty-four bytes, that precedes a table row so that a partial write has room to matter {% tablerow i in (1..2) %}{{ i }}{% endtablerow %} and more text after it",
	"{{ s | append: ' padded out to a rather long value so that the chunk is big ........................................' }}{% tablerow i in arr cols: 2 %}x{% endtablerow %}",
	// long chunks without any white space (data URIs, minified scripts, hashes), as text, object value and raw body
	strings.Repeat("0123456789abcdef", 12), "{{ s }}" + strings.Repeat("x", 90) + "{{ n }}" + strings.Repeat("y/", 60) + "{% if t %}" + strings.Repeat("z", 130) + "{% endif %}",
	"{% raw %}" + strings.Repeat("r", 100) + "{% endraw %}{{ '" + strings.Repeat("q", 100) + "' | append: s }}{% for i in (1..2) %}" + strings.Repeat("é", 60) + "{% endfor %}",
	// application tags and blocks over render.Context (custom.go): their output reaches the writer through the library's wrappers
	"a{% xecho pre-{{ n }}-post %}b{% xwrap {{ s }} %}in{{ n }}{% endxwrap %}c{% xtwice %}{{ n }},{% endxtwice %}d", "{% xfile inc/a.html %}|{% xbfile inc/c.html %}x{% endxbfile %}|{% xwhen t %}yes{{ s }}{% endxwhen %}",
	"{% for i in (1..2) %}{% xwrap w %}{% tablerow j in (1..2) %}{{ j }}{% endtablerow %}{% endxwrap %}{% xeval i | plus: 1 %}{% endfor %} {%- xget n -%} tail", "x {%- xecho {{- s -}} -%} y{% xset zz = 3 %}{{ zz }}{% xget zz %}",
	"0123456789012345678901234567890123456789012345678901234567890123456789{% for i in (1..2) %}{% cycle 'a', 'b' %}{% endfor %}0123456789012345678901234567890123456789{% include 'inc/c.html' %}",
}

func runC20(c *core.Ctx) {
	e := c20Engine()
	sentinel := errors.New("vfault-7f3a9c")
	nGen := c.Pick(4000, 80000)
	for i := 0; i < nGen+len(c20Fixed); i++ {
		if !c.Mine(i) {
			continue
		}
		r := c.Rand(i)
		env := gen.StdEnv(r)
		var src string
		if i < len(c20Fixed) {
			src = c20Fixed[i]
		} else {
			f := gen.FullFeatures()
			f.Include = []string{"inc/a.html", "inc/b.html", "inc/c.html"}
			f.MaxNodes = 10
			g := gen.NewG(r, f, env)
			prog := g.Program()
			if r.P(1, 4) {
				prog = append(prog, gen.PlainTag{Name: "utag"})
			}
			st := gen.DefaultStyle
			src = st.Source(prog)
			if r.P(1, 5) {
				src = "{% ublock %}" + src + "{% endublock %}"
			}
		}
		if !c.Begin("template:" + src) {
			continue
		}
		b := gen.CanonEnv(env)
		tpl, pr := core.Parse(e, src, "vcache/top.html", 1)
		if !pr.OK() {
			c.Skip("template does not parse")
			continue
		}
		base := &faultWriter{failAt: -1}
		r0 := core.FRender(tpl, base, b)
		c.Eval(1)
		if r0.Panic != "" {
			c.Skip("fault-free render panics (C01's business, no fault was injected)")
			continue
		}
		if !r0.OK() {
			c.Skip("template fails without faults")
			continue
		}
		O, W := base.acc.String(), base.calls
		// the prefix oracle needs a deterministic O (determinism itself is C02's business)
		stable := true
		for rep := 0; rep < 3; rep++ {
			again := &faultWriter{failAt: -1}
			if rr := core.FRender(tpl, again, b); !rr.OK() || again.acc.String() != O || again.calls != W {
				stable = false
			}
		}
		if !stable {
			c.Skip("fault-free render is not reproducible (left to C02)")
			continue
		}
		c.ObsMax("max:write_calls_per_render", int64(W))
		if i%61 == 5 {
			c.Sample(map[string]any{"source": src, "write_calls": W, "output": core.Trunc(O, 120)})
		}
		for k := 0; k <= W; k++ {
			for shape := 0; shape < 5; shape++ {
				fw := &faultWriter{failAt: k, shape: shape, err: sentinel}
				var res core.Res
				entry := "FRender"
				if (k+shape)%4 == 3 {
					entry = "ParseAndFRender"
					// ParseAndFRender parses without a path; includes resolve relative to ""
					e2src := strings.ReplaceAll(strings.ReplaceAll(src, "'inc/", "'vcache/inc/"), "\"inc/", "\"vcache/inc/")
					e2src = strings.ReplaceAll(e2src, "file inc/", "file vcache/inc/")
					res = core.ParseAndFRender(e, fw, e2src, b)
				} else {
					res = core.FRender(tpl, fw, b)
				}
				c.Eval(1)
				wit := func() map[string]any {
					return map[string]any{"source": src, "bindings": env.String(), "entry": entry, "fail_at_write": k, "of_writes": W,
						"shape": []string{"accept nothing", "accept half", "fail once then accept", "accept all but the last byte", "accept half, fail, then accept again"}[shape], "observed": res.Brief(),
						"accepted": core.Trunc(fw.acc.String(), 200), "fault_free_output": core.Trunc(O, 200)}
				}
				if k == W {
					if !fw.failed {
						if !res.OK() || fw.acc.String() != O {
							c.Violate("transparent|"+resClass(res), "render with an injector whose fault is never reached differs from the fault-free render", wit())
						}
						continue
					}
				}
				if !fw.failed {
					// fewer writes this time (cannot happen for a deterministic render)
					c.Violate("writes-vanished", "the k-th write of the fault-free render did not happen again", wit())
					continue
				}
				c.Obs("faults_injected", 1)
				c.Distinct(src, fmt.Sprint(k, shape, entry))
				switch {
				case res.Panic != "":
					c.Violate("panic|"+res.Site, "a failing writer made the render panic", wit())
				case res.Shape != "":
					c.Violate("badshape", "result is neither success nor a proper SourceError: "+res.Shape, wit())
				case !res.IsErr:
					c.Violate("reported-success", "the writer failed but the render reported success", wit())
				case !carries(res.SrcErr, sentinel):
					c.Violate("error-does-not-carry-failure", "the returned SourceError does not carry the writer's failure", wit())
				case !carriesStrict(res.SrcErr, sentinel):
					c.Violate("error-does-not-wrap-failure", "the returned SourceError names the writer's failure in its message, but Cause() does not lead to it", wit())
				}
				if !strings.HasPrefix(O, fw.acc.String()) {
					c.Violate("accepted-not-prefix|shape"+fmt.Sprint(shape), "bytes accepted by the writer are not a prefix of the fault-free output (rendering went on after the failure, or wrote something else)", wit())
				}
				if shape != 2 && shape != 4 && fw.after > 0 {
					c.Obs("writes_attempted_after_failure", int64(fw.after))
				}
			}
		}
	}
}
