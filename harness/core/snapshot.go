package core

import (
	"fmt"
	"reflect"
	"sort"
	"strings"
)

// Snapshot is a canonical deep encoding of a Go value: maps by sorted key,
// slices with length, capacity and every element up to the capacity (so an
// append in place or an in-place sort is seen), arrays, struct fields
// (exported or not), pointers with a cycle guard.
func Snapshot(x any) string {
	var sb strings.Builder
	snap(&sb, reflect.ValueOf(x), map[uintptr]bool{}, 0)
	return sb.String()
}

func snap(sb *strings.Builder, rv reflect.Value, seen map[uintptr]bool, depth int) {
	if !rv.IsValid() {
		sb.WriteString("nil")
		return
	}
	if depth > 40 {
		sb.WriteString("…")
		return
	}
	switch rv.Kind() {
	case reflect.Interface:
		if rv.IsNil() {
			sb.WriteString("nil")
			return
		}
		snap(sb, rv.Elem(), seen, depth+1)
	case reflect.Ptr:
		if rv.IsNil() {
			sb.WriteString("nilptr")
			return
		}
		p := rv.Pointer()
		if seen[p] {
			sb.WriteString("cycle")
			return
		}
		seen[p] = true
		sb.WriteString("&")
		snap(sb, rv.Elem(), seen, depth+1)
		delete(seen, p)
	case reflect.Map:
		if rv.IsNil() {
			sb.WriteString(rv.Type().String() + "(nil)")
			return
		}
		type kv struct {
			k string
			v reflect.Value
		}
		var kvs []kv
		it := rv.MapRange()
		for it.Next() {
			var kb strings.Builder
			snap(&kb, it.Key(), seen, depth+1)
			kvs = append(kvs, kv{kb.String(), it.Value()})
		}
		sort.Slice(kvs, func(i, j int) bool { return kvs[i].k < kvs[j].k })
		sb.WriteString(rv.Type().String() + "{")
		for _, e := range kvs {
			sb.WriteString(e.k + ":")
			snap(sb, e.v, seen, depth+1)
			sb.WriteString(",")
		}
		sb.WriteString("}")
	case reflect.Slice:
		if rv.IsNil() {
			sb.WriteString(rv.Type().String() + "(nil)")
			return
		}
		fmt.Fprintf(sb, "%s[len=%d cap=%d:", rv.Type().String(), rv.Len(), rv.Cap())
		full := rv
		if rv.CanAddr() || true {
			func() {
				defer func() { recover() }()
				full = rv.Slice(0, rv.Cap())
			}()
		}
		for i := 0; i < full.Len(); i++ {
			snap(sb, full.Index(i), seen, depth+1)
			sb.WriteString(",")
		}
		sb.WriteString("]")
	case reflect.Array:
		sb.WriteString(rv.Type().String() + "[")
		for i := 0; i < rv.Len(); i++ {
			snap(sb, rv.Index(i), seen, depth+1)
			sb.WriteString(",")
		}
		sb.WriteString("]")
	case reflect.Struct:
		sb.WriteString(rv.Type().String() + "{")
		for i := 0; i < rv.NumField(); i++ {
			sb.WriteString(rv.Type().Field(i).Name + ":")
			snap(sb, rv.Field(i), seen, depth+1)
			sb.WriteString(",")
		}
		sb.WriteString("}")
	case reflect.String:
		fmt.Fprintf(sb, "%q", rv.String())
	case reflect.Bool:
		fmt.Fprint(sb, rv.Bool())
	case reflect.Int, reflect.Int8, reflect.Int16, reflect.Int32, reflect.Int64:
		fmt.Fprintf(sb, "%s(%d)", rv.Type().String(), rv.Int())
	case reflect.Uint, reflect.Uint8, reflect.Uint16, reflect.Uint32, reflect.Uint64, reflect.Uintptr:
		fmt.Fprintf(sb, "%s(%d)", rv.Type().String(), rv.Uint())
	case reflect.Float32, reflect.Float64:
		fmt.Fprintf(sb, "%s(%v)", rv.Type().String(), rv.Float())
	case reflect.Func, reflect.Chan, reflect.UnsafePointer:
		if rv.IsNil() {
			sb.WriteString("nilfunc")
		} else {
			fmt.Fprintf(sb, "%s@%x", rv.Kind(), rv.Pointer())
		}
	default:
		fmt.Fprintf(sb, "?%s", rv.Kind())
	}
}
