package props

import (
	"bytes"
	"errors"
	"fmt"
	"path/filepath"
	"strings"

	"github.com/osteele/liquid"
	"github.com/osteele/liquid/expressions"
	"github.com/osteele/liquid/render"
)

// errCustomPlain is what the failing custom tags return when they do not build a located error themselves.
var errCustomPlain = errors.New("vf-custom-plain-error-77c1")

// RegisterCustom registers tags and blocks, written the way an application writes them (Engine.RegisterTag /
// RegisterBlock with a render.Context), that between them call every method of render.Context. The
// properties quantify over "every template" on "a given engine configuration"; an engine with application
// tags is such a configuration, and the Context methods are library code that only such tags reach.
//
//	{% xecho ARG %}            ExpandTagArg
//	{% xeval EXPR %}           EvaluateString, printed with fmt.Sprint
//	{% xset NAME = EXPR %}     EvaluateString + Set
//	{% xget NAME %}            Get
//	{% xbump NAME %}           Bindings()[NAME]++ (a write through the map Bindings returns)
//	{% xinfo ARGS %}           TagName, TagArgs, SourceFile, len(Bindings)
//	{% xfile ARG %}            ExpandTagArg + RenderFile relative to SourceFile
//	{% xcard EXPR %}           EvaluateString + RenderFile("card.html", the map EXPR yields)
//	{% xfail ARGS %}           Errorf
//	{% xwrapfail %}            WrapError(plain error)
//	{% xplainfail %}           a plain error
//	{% xwrap ARG %}..{% endxwrap %}       ExpandTagArg + InnerString
//	{% xtwice %}..{% endxtwice %}         RenderChildren twice
//	{% xwhen EXPR %}..{% endxwhen %}      EvaluateString, then InnerString when truthy
//	{% xbfile ARG %}..{% endxbfile %}     RenderFile from a block
//	{% xbfail %}..{% endxbfail %}         Errorf from a block
//	{% xbplain %}..{% endxbplain %}       InnerString, then a plain error
func RegisterCustom(e *liquid.Engine) {
	e.RegisterTag("z", func(render.Context) (string, error) { return "Z", nil })
	e.RegisterTag("xecho", func(c render.Context) (string, error) { return c.ExpandTagArg() })
	e.RegisterTag("xeval", func(c render.Context) (string, error) {
		v, err := c.EvaluateString(c.TagArgs())
		if err != nil {
			return "", err
		}
		return fmt.Sprint(v), nil
	})
	e.RegisterTag("xset", func(c render.Context) (string, error) {
		name, expr, ok := strings.Cut(c.TagArgs(), "=")
		if !ok {
			return "", c.Errorf("xset: expected NAME = EXPR, got %q", c.TagArgs())
		}
		v, err := c.EvaluateString(expr)
		if err != nil {
			return "", err
		}
		c.Set(strings.TrimSpace(name), v)
		return "", nil
	})
	// xbump NAME: counts in the current environment by writing through Bindings(), the way tags written for Jekyll do
	e.RegisterTag("xbump", func(c render.Context) (string, error) {
		name := strings.TrimSpace(c.TagArgs())
		b := c.Bindings()
		if b == nil {
			return "", c.Errorf("xbump: no bindings")
		}
		n, _ := b[name].(int)
		b[name] = n + 1
		return "", nil
	})
	e.RegisterTag("xget", func(c render.Context) (string, error) {
		return fmt.Sprint(c.Get(strings.TrimSpace(c.TagArgs()))), nil
	})
	e.RegisterTag("xinfo", func(c render.Context) (string, error) {
		return fmt.Sprintf("%s|%s|%s|%v", c.TagName(), c.TagArgs(), filepath.Base(c.SourceFile()), len(c.Bindings()) >= 0), nil
	})
	file := func(c render.Context) (string, error) {
		a, err := c.ExpandTagArg()
		if err != nil {
			return "", err
		}
		return c.RenderFile(filepath.Join(filepath.Dir(c.SourceFile()), strings.TrimSpace(a)), map[string]any{"xlocal": "L"})
	}
	e.RegisterTag("xfile", file)
	// xcard EXPR: renders card.html with the entries of the map EXPR evaluates to as additional variables
	// (include parameters in the style of Jekyll); the map comes straight out of the caller's bindings
	e.RegisterTag("xcard", func(c render.Context) (string, error) {
		v, err := c.EvaluateString(c.TagArgs())
		if err != nil {
			return "", err
		}
		params, _ := v.(map[string]any)
		return c.RenderFile(filepath.Join(filepath.Dir(c.SourceFile()), "card.html"), params)
	})
	e.RegisterTag("xfail", func(c render.Context) (string, error) { return "", c.Errorf("custom failure %s", c.TagArgs()) })
	e.RegisterTag("xwrapfail", func(c render.Context) (string, error) { return "", c.WrapError(errCustomPlain) })
	e.RegisterTag("xplainfail", func(c render.Context) (string, error) { return "", errCustomPlain })
	// xwhere_exp NAME, EXPR: a filter with a parameter of type expressions.Closure (the shape of Jekyll's where_exp):
	// the library parses EXPR when the filter is applied and hands the filter a closure to evaluate per item
	e.RegisterFilter("xwhere_exp", func(a []any, name string, cl expressions.Closure) (any, error) {
		if cl == nil {
			return nil, errCustomPlain // applied without the expression argument: the library passes the zero value
		}
		var out []any
		for _, it := range a {
			v, err := cl.Bind(name, it).Evaluate()
			if err != nil {
				return nil, err
			}
			if v != nil && v != false {
				out = append(out, it)
			}
		}
		return out, nil
	})
	e.RegisterBlock("xwrap", func(c render.Context) (string, error) {
		a, err := c.ExpandTagArg()
		if err != nil {
			return "", err
		}
		s, err := c.InnerString()
		if err != nil {
			return "", err
		}
		return "<" + a + ">" + s + "</>", nil
	})
	e.RegisterBlock("xtwice", func(c render.Context) (string, error) {
		var buf bytes.Buffer
		for i := 0; i < 2; i++ {
			if err := c.RenderChildren(&buf); err != nil {
				return "", err
			}
		}
		return buf.String(), nil
	})
	e.RegisterBlock("xwhen", func(c render.Context) (string, error) {
		v, err := c.EvaluateString(c.TagArgs())
		if err != nil {
			return "", err
		}
		if v == nil || v == false {
			return "", nil
		}
		return c.InnerString()
	})
	e.RegisterBlock("xbfile", file)
	e.RegisterBlock("xbfail", func(c render.Context) (string, error) { return "", c.Errorf("custom block failure %s", c.TagArgs()) })
	e.RegisterBlock("xbplain", func(c render.Context) (string, error) {
		if _, err := c.InnerString(); err != nil {
			return "", err
		}
		return "", errCustomPlain
	})
}

// customFragments are argument texts for the custom tags, chosen to reach the corners of ExpandTagArg,
// EvaluateString and RenderFile: complete and incomplete objects, failing objects, tags inside arguments.
var customFragments = []string{"", "x", "pre-{{ x }}-post", "{{ s }}{{ n }}", "{{", "{{ x", "x }}", "{{ 'a }}", "{{ x | nosuchfilter }}", "{{ 1 | divided_by: 0 }}",
	"{{- x -}}", " {{ a | join: ',' }} ", "{{ a[9].b.c }}", "{{ nothing.y }}", "a == b", "1 | plus: 2", "a contains 1", "(1..3)", "'lit'", "x = 1", "v = a | first", "= 1", "x =",
	"{{ x }} {% if t %}T{% endif %}", "{% endif %}", "{{ m }}", "%assign q = 1", "{%cycle 'a'", "{{ x }}\n{{ y | nosuch }}", "{{ a | xwhere_exp: 'it', 'it >' }}", "{{ a | xwhere_exp: 'it', n | join: ',' }}", "{{ a | xwhere_exp: 'it', 'it != 1' | join: ',' }}", "no-such-file.html", "{{ '../' | append: s }}", "a.html", "\x00", "{{ '{{' }}", "é{{ 'é' | upcase }}"}

// CustomSources builds hostile templates around the custom tags.
func customSource(pick func(n int) int) string {
	tags := []string{"xecho", "xeval", "xset", "xget", "xbump", "xinfo", "xfile", "xfail", "xwrapfail", "xplainfail"}
	blocks := []string{"xwrap", "xtwice", "xwhen", "xbfile", "xbfail", "xbplain"}
	bodies := []string{"", "body", "{{ x }}", "{% break %}", "{% xecho {{ x }} %}", "{% for i in (1..2) %}{{ i }}{% continue %}{% endfor %}", "{{ 1 | divided_by: 0 }}", "{% xset x = 5 %}{{ x }}", "{% assign x = 9 %}"}
	var sb strings.Builder
	for k := 1 + pick(3); k > 0; k-- {
		frag := customFragments[pick(len(customFragments))]
		if pick(2) == 0 {
			sb.WriteString("{% " + tags[pick(len(tags))] + " " + frag + " %}")
			continue
		}
		b := blocks[pick(len(blocks))]
		body := bodies[pick(len(bodies))]
		switch pick(4) {
		case 0:
			sb.WriteString("{% for q in (1..2) %}{% " + b + " " + frag + " %}" + body + "{% end" + b + " %}{% endfor %}")
		case 1:
			b2 := blocks[pick(len(blocks))]
			sb.WriteString("{% " + b + " " + frag + " %}{% " + b2 + " " + customFragments[pick(len(customFragments))] + " %}" + body + "{% end" + b2 + " %}{% end" + b + " %}")
		default:
			sb.WriteString("{% " + b + " " + frag + " %}" + body + "{% end" + b + " %}")
		}
	}
	return sb.String()
}
