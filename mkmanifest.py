#!/usr/bin/env python3
"""Regenerates MANIFEST.json from the table below (kept here so the manifest is always valid JSON)."""
import json, subprocess
CHECKS = {
 # id: (level, technique, text, note, design_ref)
 "C05": ("exploration", "runtime monitor: identity/partition/line-law oracles over exhaustive short strings and PRNG bytes",
         "Every string over an 8-symbol delimiter alphabet up to length 6 (quick) / 8 (thorough) is pushed through parser.Scan and parse+render of the real code; oracles: token sources concatenate to the input, token line = start + preceding newlines, no-open sources render to themselves, raw bodies verbatim, comment bodies inert and unevaluated (probe tag), string values printed exactly. Exhaustive for the bounded alphabet, sampled (PRNG bytes/UTF-8 to 64 KiB) beyond.",
         "Trusts ref.Tokens (frozen tokenizer written from the property text) to decide which raw/comment bodies are well-formed; says nothing about strings outside the enumerated/sampled sets.", "DESIGN.md 5/C05"),
}
NA = {}
def main():
    props=[json.loads(l)["id"] for l in open("/verif/properties.jsonl")]
    hooks_commits = subprocess.run(["git","-C","/repo","log","--format=%H","--grep=^verif hooks"],capture_output=True,text=True).stdout.split()
    m = {"version":1,
      "setup_cmd":"./run.sh --setup",
      "hooks":{"guard":"verif","enable":"go build -tags verif (run.sh builds harness/cmd/vcheck against /repo with -tags verif)",
               "baseline_off_cmd":"cd /repo && GOFLAGS=-mod=mod GOPROXY=off GOSUMDB=off go test -vet=off -count=1 ./...",
               "source_commits":hooks_commits,"add_only":True},
      "engines":[{"name":"vcheck","path":"harness/cmd/vcheck","serves_properties":sorted(CHECKS),"kind_free_text":"Go driver+workers: runs the real library (built from /repo with -tags verif) over enumerated and PRNG workloads in child processes; monitors at the API boundary, reference model in harness/ref"}],
      "checks":[], "not_applicable":[],
      "notes":"All checks: ./run.sh <ID> quick|thorough; VERIF_SEED selects the PRNG stream; exit 0 held / 1 violation / 2 inconclusive. known_findings.txt lists known and fixed defects."}
    for pid in props:
        if pid in CHECKS:
            level,tech,text,note,ref = CHECKS[pid]
            m["checks"].append({"property_id":pid,"quick_cmd":f"./run.sh {pid} quick","thorough_cmd":f"./run.sh {pid} thorough",
              "evidence_file":f"/verif/evidence/{pid}.json","replay_cmd_template":f"./run.sh {pid} --replay {{path}}","engine":"vcheck",
              "level_claimed":{"category":level,"text":text,"design_ref":ref},"level_note":note,"technique":tech})
        else:
            m["not_applicable"].append({"property_id":pid,"reason":NA.get(pid,"check not built yet in this round (in scope for runtime monitoring; see DESIGN.md section 5)")})
    json.dump(m,open("/verif/MANIFEST.json","w"),indent=1)
main()
