package gen

import (
	"fmt"

	"verif/harness/core"
)

// Features selects what the program generator may emit.
type Features struct {
	Loops      bool
	Tablerow   bool
	Cycle      bool
	Capture    bool
	Assign     bool
	Case       bool
	Include    []string // names of includable files (nil = no include)
	RawComment bool
	Trim       bool   // put hyphens on delimiters
	Filters    bool   // filter pipelines in expressions
	AllFilters bool   // draw from every filter family (else the model-supported subset)
	Errors     bool   // may plant a failing construct (division by zero, unknown filter)
	MapLoops   bool   // loops over maps (order is Go-map order unless the engine sorts)
	Probe      string // name of a plain probe tag to sprinkle ("" = none)
	MaxDepth   int
	MaxNodes   int
	WSText     bool // text nodes rich in whitespace (for trim laws)
	Model      bool // only constructs whose result the reference model defines
	NoVarReuse bool // assigned/captured names are never read by generated expressions
	NestedArgs bool // filter arguments may themselves be filtered expressions in parentheses
}

// StdEnv is a binding environment covering every kind; values vary with r.
func StdEnv(r *core.Rand) Env {
	words := []string{"abc", "a b c", "Hello World", "héllo", "x", "liquid", "foo bar", "Zed", "b", "tea"}
	w := func() V { return Str(words[r.Intn(len(words))]) }
	n := func() V { return Int(int64(r.Range(-3, 9))) }
	arr := make([]V, r.Range(0, 5))
	for i := range arr {
		arr[i] = n()
	}
	sarr := make([]V, r.Range(1, 4))
	for i := range sarr {
		sarr[i] = w()
	}
	objs := make([]V, r.Range(1, 4))
	for i := range objs {
		objs[i] = Map(KV{"id", Int(int64(i + 1))}, KV{"name", w()}, KV{"tags", Strs("t1", "t2")})
	}
	m := Map(KV{"a", n()}, KV{"b", w()}, KV{"c", Arr(n(), n())})
	if r.Bool() {
		m.M = append(m.M, KV{"size", Int(99)})
	}
	return Env{
		{"n", n()}, {"k", Int(int64(r.Range(0, 4)))}, {"f", Float([]float64{2.5, 0.5, -1.5, 3.0, 0.25}[r.Intn(5)])},
		{"s", w()}, {"s2", w()}, {"es", Str("")}, {"t", Bool(true)}, {"fa", Bool(false)}, {"z", Int(0)},
		{"arr", Arr(arr...)}, {"sarr", Arr(sarr...)}, {"earr", Arr()}, {"mixed", Arr(Int(1), Str("a"), Nil, Float(2.5))},
		{"nested", Arr(Ints(1, 2), Ints(3), Arr())}, {"m", m}, {"m2", Map(KV{"k", Map(KV{"j", n()})})}, {"objs", Arr(objs...)},
		{"em", Map()},
	}
}

// G generates template programs.
type G struct {
	R     *core.Rand
	F     Features
	Env   Env
	nodes int
	vars  []string // assigned/captured/loop variables in scope (generator's view)
	loops int
	fresh int
}

// NewG creates a generator.
func NewG(r *core.Rand, f Features, env Env) *G {
	if f.MaxDepth == 0 {
		f.MaxDepth = 3
	}
	if f.MaxNodes == 0 {
		f.MaxNodes = 14
	}
	return &G{R: r, F: f, Env: env}
}

func (g *G) trim() Trim {
	if !g.F.Trim {
		return Trim{}
	}
	return Trim{g.R.P(1, 3), g.R.P(1, 3)}
}

func (g *G) trims(n int) []Trim {
	if !g.F.Trim {
		return nil
	}
	t := make([]Trim, n)
	for i := range t {
		t[i] = g.trim()
	}
	return t
}

var textPieces = []string{"a", "b ", " c", "x\n", "\ny", "-", "<p>", ", ", "word ", "1", "", "é", "  ", "\n", "\t", "voilà", "Р", "ах"}
var wsPieces = []string{" ", "\n", "\t", "  \n  ", "a", "b", " x ", "\r\n", "", "y\n", "\n z", "-", "voilà", "à ", " Р", "х", "\u00a0", "déjà\n"}

func (g *G) text() Text {
	ps := textPieces
	if g.F.WSText {
		ps = wsPieces
	}
	s := ""
	for k := g.R.Range(1, 3); k > 0; k-- {
		s += ps[g.R.Intn(len(ps))]
	}
	return Text{s}
}

func (g *G) freshName(prefix string) string {
	g.fresh++
	return fmt.Sprintf("%s%d", prefix, g.fresh)
}

// varsOfKind returns env names whose value has kind k.
func (g *G) varsOfKind(ks ...Kind) []string {
	var out []string
	for _, kv := range g.Env {
		for _, k := range ks {
			if kv.V.K == k {
				out = append(out, kv.K)
			}
		}
	}
	return out
}

func pick(r *core.Rand, ss []string) string {
	if len(ss) == 0 {
		return "undefined_var"
	}
	return ss[r.Intn(len(ss))]
}

// Scalar returns an expression that usually evaluates to a scalar.
func (g *G) Scalar(depth int) Expr {
	r := g.R
	switch r.Intn(12) {
	case 0:
		return Lit{Int(int64(r.Range(-2, 12)))}
	case 1:
		return Lit{Str([]string{"a", "abc", "", "x y", "B"}[r.Intn(5)])}
	case 2:
		return Lit{[]V{Nil, Bool(true), Bool(false), Float(1.5)}[r.Intn(4)]}
	case 3, 4:
		return Var{pick(r, g.varsOfKind(KInt, KFloat, KStr, KBool))}
	case 5:
		if len(g.vars) > 0 {
			return Var{g.vars[r.Intn(len(g.vars))]}
		}
		return Var{"undefined_var"}
	case 6:
		return Index{Var{pick(r, g.varsOfKind(KArr))}, Lit{Int(int64(r.Range(-3, 4)))}}
	case 7:
		return Prop{X: Var{pick(r, g.varsOfKind(KArr))}, Name: []string{"first", "last", "size"}[r.Intn(3)]}
	case 8:
		m := pick(r, g.varsOfKind(KMap))
		return Prop{X: Var{m}, Name: []string{"a", "b", "size", "zz", "k"}[r.Intn(5)], Bracket: r.Bool()}
	case 9:
		return Prop{X: Prop{X: Var{"m2"}, Name: "k"}, Name: "j"}
	case 10:
		return Prop{X: Index{Var{"objs"}, Lit{Int(int64(r.Range(0, 2)))}}, Name: []string{"id", "name"}[r.Intn(2)]}
	default:
		if g.loops > 0 {
			return Prop{X: Var{"forloop"}, Name: []string{"index", "index0", "rindex", "rindex0", "length", "first", "last"}[r.Intn(7)]}
		}
		return Var{"n"}
	}
}

// ModelFilters is the filter subset the reference model evaluates exactly.
var modelFilters = []struct {
	name string
	recv int // 0 any scalar, 1 string, 2 number, 3 array
	args func(g *G) []Expr
}{
	{"append", 1, func(g *G) []Expr { return []Expr{g.strArg()} }},
	{"prepend", 1, func(g *G) []Expr { return []Expr{g.strArg()} }},
	{"upcase", 1, nil}, {"downcase", 1, nil}, {"strip", 1, nil}, {"size", 1, nil}, {"size", 3, nil},
	{"plus", 2, func(g *G) []Expr { return []Expr{g.numArg()} }},
	{"minus", 2, func(g *G) []Expr { return []Expr{g.numArg()} }},
	{"times", 2, func(g *G) []Expr { return []Expr{g.numArg()} }},
	{"join", 3, func(g *G) []Expr { return []Expr{Lit{Str([]string{",", "-", ""}[g.R.Intn(3)])}} }},
	{"first", 3, nil}, {"last", 3, nil}, {"reverse", 3, nil}, {"compact", 3, nil},
}

// extra filters exercised only by model-free checks
var extraFilters = []struct {
	name string
	recv int
	args func(g *G) []Expr
}{
	{"default", 0, func(g *G) []Expr { return []Expr{g.strArg()} }},
	{"capitalize", 1, nil}, {"escape", 1, nil}, {"escape_once", 1, nil}, {"lstrip", 1, nil}, {"rstrip", 1, nil},
	{"url_encode", 1, nil}, {"url_decode", 1, nil}, {"strip_html", 1, nil}, {"strip_newlines", 1, nil}, {"newline_to_br", 1, nil},
	{"replace", 1, func(g *G) []Expr { return []Expr{g.strArg(), g.strArg()} }},
	{"replace_first", 1, func(g *G) []Expr { return []Expr{g.strArg(), g.strArg()} }},
	{"remove", 1, func(g *G) []Expr { return []Expr{g.strArg()} }},
	{"remove_first", 1, func(g *G) []Expr { return []Expr{g.strArg()} }},
	{"split", 1, func(g *G) []Expr { return []Expr{Lit{Str([]string{" ", ",", "b"}[g.R.Intn(3)])}} }},
	{"slice", 1, func(g *G) []Expr { return []Expr{g.numArg(), Lit{Int(int64(g.R.Range(0, 4)))}} }},
	{"truncate", 1, func(g *G) []Expr { return []Expr{Lit{Int(int64(g.R.Range(3, 12)))}} }},
	{"truncatewords", 1, func(g *G) []Expr { return []Expr{Lit{Int(int64(g.R.Range(1, 4)))}} }},
	{"abs", 2, nil}, {"ceil", 2, nil}, {"floor", 2, nil}, {"round", 2, nil},
	{"divided_by", 2, func(g *G) []Expr { return []Expr{Lit{Int(int64(g.R.Range(1, 5)))}} }},
	{"modulo", 2, func(g *G) []Expr { return []Expr{Lit{Int(int64(g.R.Range(1, 5)))}} }},
	{"sort", 3, nil}, {"uniq", 3, nil}, {"sort_natural", 3, nil},
	{"concat", 3, func(g *G) []Expr { return []Expr{Var{pick(g.R, g.varsOfKind(KArr))}} }},
	{"map", 3, func(g *G) []Expr { return []Expr{Lit{Str("name")}} }},
	{"json", 0, nil}, {"inspect", 0, nil}, {"type", 0, nil},
}

func (g *G) strArg() Expr {
	if g.F.NestedArgs && g.R.P(1, 5) {
		if g.R.Bool() {
			return Filt{X: Lit{Str([]string{"in", "N", ""}[g.R.Intn(3)])}, Name: "upcase"}
		}
		return Filt{X: Lit{Str([]string{"in", "N", ""}[g.R.Intn(3)])}, Name: []string{"append", "prepend"}[g.R.Intn(2)], Args: []Expr{Lit{Str("q")}}}
	}
	if g.R.P(1, 3) {
		return Var{pick(g.R, g.varsOfKind(KStr))}
	}
	return Lit{Str([]string{"a", "-", " ", "xy", ""}[g.R.Intn(5)])}
}

func (g *G) numArg() Expr {
	if g.F.NestedArgs && g.R.P(1, 5) {
		// a filtered expression as argument: (x | plus: 1)
		return Filt{X: Lit{Int(int64(g.R.Range(0, 6)))}, Name: []string{"plus", "minus", "times"}[g.R.Intn(3)], Args: []Expr{Lit{Int(int64(g.R.Range(1, 3)))}}}
	}
	if g.R.P(1, 3) {
		return Var{pick(g.R, g.varsOfKind(KInt))}
	}
	return Lit{Int(int64(g.R.Range(-2, 5)))}
}

// Value returns an expression legal as an object / assign value (may carry filters).
func (g *G) Value(depth int) Expr {
	r := g.R
	if !g.F.Filters || r.P(1, 2) {
		return g.Scalar(depth)
	}
	fs := modelFilters
	if g.F.AllFilters && r.Bool() {
		fs = extraFilters
	}
	var e Expr
	n := r.Range(1, 3)
	for i := 0; i < n; i++ {
		f := fs[r.Intn(len(fs))]
		if i == 0 {
			switch f.recv {
			case 1:
				e = Var{pick(r, g.varsOfKind(KStr))}
				if r.P(1, 4) {
					e = Lit{Str("Lit eral")}
				}
			case 2:
				e = Var{pick(r, g.varsOfKind(KInt, KFloat))}
				if r.P(1, 4) {
					e = Lit{Int(int64(r.Range(-5, 20)))}
				}
			case 3:
				e = Var{pick(r, g.varsOfKind(KArr))}
			default:
				e = g.Scalar(depth)
			}
		}
		var args []Expr
		if f.args != nil {
			args = f.args(g)
		}
		e = Filt{X: e, Name: f.name, Args: args}
	}
	if g.F.Errors && r.P(1, 12) {
		if r.Bool() {
			e = Filt{X: e, Name: "divided_by", Args: []Expr{Lit{Int(0)}}}
		} else {
			e = Filt{X: e, Name: "no_such_filter"}
		}
	}
	return e
}

// Cond returns a condition expression.
func (g *G) Cond(depth int) Expr {
	r := g.R
	switch r.Intn(8) {
	case 0, 1:
		return g.Scalar(depth)
	case 2, 3, 4:
		ops := []string{"==", "!=", "<", ">", "<=", ">=", "contains"}
		return Cmp{Op: ops[r.Intn(len(ops))], A: g.Scalar(depth), B: g.Scalar(depth)}
	case 5:
		return Logic{Op: []string{"and", "or"}[r.Intn(2)], A: g.Cond(depth + 1), B: g.Cond(depth + 1)}
	case 6:
		return Lit{Bool(r.Bool())}
	default:
		return Cmp{Op: "==", A: Var{pick(r, g.varsOfKind(KInt))}, B: Lit{Int(int64(r.Range(-3, 9)))}}
	}
}

// Coll returns a loop collection expression (bounded extent).
func (g *G) Coll() Expr {
	r := g.R
	switch r.Intn(8) {
	case 0, 1, 2:
		return Var{pick(r, g.varsOfKind(KArr))}
	case 3:
		return RangeE{Lit{Int(int64(r.Range(-1, 3)))}, Lit{Int(int64(r.Range(0, 5)))}}
	case 4:
		return RangeE{Var{"k"}, Lit{Int(int64(r.Range(2, 5)))}}
	case 5:
		if g.F.MapLoops {
			return Var{pick(r, g.varsOfKind(KMap))}
		}
		return Var{"sarr"}
	case 6:
		if g.F.Model {
			return Var{[]string{"undefined_var", "earr", "nothing"}[r.Intn(3)]}
		}
		return Var{[]string{"undefined_var", "earr", "n", "s"}[r.Intn(4)]}
	default:
		return Prop{X: Var{"m"}, Name: "c"}
	}
}

// Program generates a template.
func (g *G) Program() []Node {
	return g.seq(0, g.R.Range(2, 6))
}

func (g *G) seq(depth, n int) []Node {
	var out []Node
	for i := 0; i < n && g.nodes < g.F.MaxNodes; i++ {
		out = append(out, g.node(depth))
	}
	return out
}

func (g *G) node(depth int) Node {
	g.nodes++
	r := g.R
	leaf := depth >= g.F.MaxDepth
	for {
		switch c := r.Intn(20); {
		case c < 4:
			return g.text()
		case c < 8:
			return Out{E: g.Value(depth), T: g.trim()}
		case c == 8 && g.F.Assign:
			name := []string{"v1", "v2", "n", "s"}[r.Intn(4)] // may shadow bindings
			if g.F.NoVarReuse {
				name = []string{"v1", "v2"}[r.Intn(2)]
			} else {
				g.vars = append(g.vars, name)
			}
			e := g.Value(depth)
			// no direct self-feeding ({% assign s = s | append: s %}): inside nested loops that doubles a string per
			// iteration, and a template that exhausts memory by its own doing tells nothing about the engine
			for try := 0; try < 4 && mentions(DefaultStyle.ExprSource(e), name); try++ {
				e = g.Value(depth)
			}
			if mentions(DefaultStyle.ExprSource(e), name) {
				e = Lit{V: Int(int64(r.Intn(5)))}
			}
			return Assign{Name: name, E: e, T: g.trim()}
		case c == 9 && g.F.Capture && !leaf:
			name := []string{"c1", "c2", "s2"}[r.Intn(3)]
			body := g.seq(depth+1, r.Range(1, 3))
			if g.F.NoVarReuse {
				name = []string{"c1", "c2"}[r.Intn(2)]
			} else {
				g.vars = append(g.vars, name)
			}
			if mentions(DefaultStyle.Source(body), name) {
				// a capture that contains its own earlier value grows geometrically in a loop: capture under a name the body does not read
				for _, alt := range []string{"c1", "c2", "c3"} {
					if !mentions(DefaultStyle.Source(body), alt) {
						name = alt
						break
					}
				}
			}
			tt := [2]Trim{g.trim(), g.trim()}
			return Capture{Name: name, Body: body, T: tt}
		case (c == 10 || c == 11) && !leaf:
			nb := r.Range(1, 3)
			n := If{Unless: r.P(1, 4)}
			for i := 0; i < nb; i++ {
				n.Conds = append(n.Conds, g.Cond(depth))
				n.Bodies = append(n.Bodies, g.seq(depth+1, r.Range(0, 2)))
			}
			if n.Unless {
				n.Conds, n.Bodies = n.Conds[:1], n.Bodies[:1]
			}
			if r.Bool() {
				n.HasElse = true
				n.Else = g.seq(depth+1, r.Range(0, 2))
			}
			n.T = g.trims(len(n.Conds) + 2)
			return n
		case c == 12 && g.F.Case && !leaf:
			n := Case{Subj: g.Scalar(depth)}
			for i, nb := 0, r.Range(1, 3); i < nb; i++ {
				ws := []Expr{g.Scalar(depth)}
				if r.P(1, 3) {
					ws = append(ws, g.Scalar(depth))
				}
				n.Whens = append(n.Whens, ws)
				n.Bodies = append(n.Bodies, g.seq(depth+1, r.Range(0, 2)))
			}
			if r.Bool() {
				n.HasElse = true
				n.Else = g.seq(depth+1, r.Range(0, 2))
				if r.P(1, 3) {
					n.ElseBefore = r.Range(1, len(n.Whens)) // else is the fallback wherever it stands among the clauses
				}
			}
			n.T = g.trims(len(n.Whens) + 3)
			return n
		case (c == 13 || c == 14) && g.F.Loops && !leaf && g.loops < 2:
			n := For{Var: []string{"i", "x", "n"}[r.Intn(3)], Coll: g.Coll(), Reversed: r.P(1, 4), ModOrder: r.Intn(8)}
			if g.F.Tablerow && r.P(1, 4) {
				n.Tablerow = true
				if r.Bool() {
					n.Cols = Lit{Int(int64(r.Range(1, 3)))}
				}
			}
			if r.P(1, 4) {
				n.Offset = Lit{Int(int64(r.Range(0, 3)))}
			}
			if r.P(1, 4) {
				n.Limit = Lit{Int(int64(r.Range(0, 3)))}
			}
			g.loops++
			g.vars = append(g.vars, n.Var)
			n.Body = g.seq(depth+1, r.Range(1, 3))
			if r.P(1, 4) && !n.Tablerow {
				n.Body = append(n.Body, If{Conds: []Expr{Cmp{Op: "==", A: Prop{X: Var{"forloop"}, Name: "index"}, B: Lit{Int(int64(r.Range(1, 3)))}}},
					Bodies: [][]Node{{[]Node{Break{}, Continue{}}[r.Intn(2)]}}})
			}
			g.loops--
			g.vars = g.vars[:len(g.vars)-1]
			if r.P(1, 3) && !n.Tablerow {
				n.HasElse = true
				n.Else = g.seq(depth+1, 1)
			}
			n.T = g.trims(3)
			return n
		case c == 15 && g.F.Cycle && g.loops > 0:
			// one fixed value list per group: sharing of a group between different lists is not specified
			n := Cycle{Vals: []string{"a", "b"}, T: g.trim()}
			switch r.Intn(3) {
			case 1:
				n.HasGroup, n.Group, n.Vals = true, "g1", []string{"x", "y", "z"}
			case 2:
				n.HasGroup, n.Group, n.Vals = true, "g2", []string{"p", "q"}
			}
			return n
		case c == 16 && len(g.F.Include) > 0:
			return Include{E: Lit{Str(g.F.Include[r.Intn(len(g.F.Include))])}, T: g.trim()}
		case c == 17 && g.F.RawComment:
			if r.Bool() {
				return Raw{S: []string{"{{ x }}", " r ", "{% if %}", "a\n"}[r.Intn(4)], T: [2]Trim{g.trim(), g.trim()}}
			}
			return Comment{S: []string{"{{ x }}", " c ", "{% endif %}", ""}[r.Intn(4)], T: [2]Trim{g.trim(), g.trim()}}
		case c == 18 && g.F.Probe != "":
			return PlainTag{Name: g.F.Probe, T: g.trim()}
		case c == 19:
			return g.text()
		}
	}
}

// FullFeatures enables everything that needs no external files.
func FullFeatures() Features {
	return Features{Loops: true, Tablerow: true, Cycle: true, Capture: true, Assign: true, Case: true, RawComment: true, Trim: true,
		Filters: true, AllFilters: true, MaxDepth: 3, MaxNodes: 16}
}

// mentions reports whether identifier name occurs in src as a whole word.
func mentions(src, name string) bool {
	for i := 0; i+len(name) <= len(src); i++ {
		if src[i:i+len(name)] != name {
			continue
		}
		before := i == 0 || !isIdentByte(src[i-1])
		after := i+len(name) == len(src) || !isIdentByte(src[i+len(name)])
		if before && after {
			return true
		}
	}
	return false
}

func isIdentByte(b byte) bool {
	return b == '_' || b >= '0' && b <= '9' || b >= 'a' && b <= 'z' || b >= 'A' && b <= 'Z'
}
