#!/usr/bin/env python3
"""Regenerates MANIFEST.json from the table below (kept here so the manifest is always valid JSON)."""
import json, subprocess
CHECKS = {
 "C18": ("exploration", "runtime monitor: realisation-invariance (metamorphic): canonical Go representation vs PRNG alternative representations of the same logical bindings",
         "Five template families, each restricted to the positions the statement names for its representation class (Drops by value/pointer at any depth + typed slices/arrays/maps under generated programs and 38 targeted Drop positions; every numeric width incl. unsigned under print/compare/arithmetic; pointers on values reached by lookup; yaml.MapSlice under lookup and size; []byte under print and string filters); every (template, logical env) is rendered canonically and in 8 (quick) / 24 (thorough) alternative realisations chosen independently at every node; results must be byte-identical or both fail.",
         "Text forms of maps and nested arrays (Go syntax) are outside every property and are skipped; json/inspect/type are not used; widths are not used as indices or loop modifiers.", "DESIGN.md 5/C18"),
 "C06": ("exploration", "runtime monitor: reference nesting automaton + parse-tree isomorphism (GetRoot via reflection) + marker render",
         "All symbol sequences over the 22-symbol block alphabet up to length 4 (quick) / 5 (thorough), over a reduced 9-symbol alphabet up to length 6 / 7, and PRNG well-nested templates of depth <= 40 with all their one-edit neighbours are parsed by the real code. Oracle: acceptance iff the reference stack automaton accepts; rejected templates render nothing; accepted trees are isomorphic to the reference tree; unique text markers render under exactly their enclosing blocks/clauses in two runs (conditions true/false, loops one-element/empty).",
         "Comment/raw bodies are opaque; repeated or misordered clauses are accepted and their rendering not asserted.", "DESIGN.md 5/C06"),
 "C07": ("exploration", "runtime monitor: planted-failure locator (the generator knows the byte offset of the single failing construct)",
         "3e5 (quick) / 6e6 (thorough) PRNG templates with exactly one of 36 failing constructs planted at a known offset, nested 0..6 deep through every block kind/clause, preceded by multi-line tags and objects, parsed with 3 paths x 3 start lines through 4 entry points. Oracle: non-nil SourceError without output, Path() = parse path, LineNumber() = start + newlines before the construct, message names unknown tags/filters, Cause() reaches the wrapped error.",
         "Errors inside included files are not located; unterminated blocks are planted at depth 0 only.", "DESIGN.md 5/C07"),
 "C08": ("exploration", "runtime monitor: reference evaluator for lookups + assign-decomposition and whitespace-variant metamorphic checks",
         "Exhaustive index grid (length 0..5 x index -7..7 and non-integer indices), 4e4 / 8e5 PRNG lookup chains over nested PRNG bindings (also in strict mode) against the reference evaluator; 4e4 / 8e5 pipelines vs their assign-decomposition and generated programs printed in 6 whitespace styles; arity+1 and unknown-filter errors for every registered filter.",
         "Float indices, non-string map indices, size of a string as a property and printing of maps are not asserted.", "DESIGN.md 5/C08"),
 "C13": ("exploration", "runtime monitor: weak/strong trim laws (metamorphic) over all 2^k hyphen subsets; source-level whitespace deletion via the frozen tokenizer",
         "700 (quick) / 14000 (thorough) PRNG base templates with whitespace-rich text; up to 10 hyphen slots chosen per base and all 2^k subsets rendered (6e5 / 1.2e7 renders). Weak law for every subset; strong law (equality with the hyphen-free template whose adjacent whitespace was deleted at source level) for subsets whose hyphens all face literal text.",
         "Captured/assigned text is only printed; strong law not asserted for hyphens facing tags, objects or raw/comment bodies.", "DESIGN.md 5/C13"),
 "C14": ("exploration", "runtime monitor: include graphs on real temporary directories + cache vs inlining reference model; presence states enumerated per file",
         "2e4 (quick) / 4e5 (thorough) PRNG acyclic include graphs (depth <= 4) written under .work/, each file disk-only / cache-only / both (disk wins) / missing, arguments as literal, variable and filtered expression, top-level parsed with absolute, relative and no path; compared with the reference model inlining the graph; missing files, non-string arguments, failing included templates, directories and paths through files must give a SourceError.",
         "Resolution is relative to the top-level parse path at every depth; leak-back of assignments from included files not asserted.", "DESIGN.md 5/C14"),
 "C09": ("exploration", "runtime monitor: exhaustive operand-pair matrix with reference comparison + operator coherence laws",
         "All ordered pairs of the ~85-value boundary universe (every kind, numeric widths incl. unsigned, typed/generic arrays, maps, structs, ordered maps, Drops, pointers), each also re-realised in 4 (quick) / 16 (thorough) PRNG Go representations, are pushed through ==, !=, <, >, <=, >=, contains, and/or in object and tag form and in both operand orders. Oracle: the reference value where the statement defines one, the coherence laws for all pairs, no operator fails; 1e5 / 2e6 PRNG and/or combinations against the model.",
         "Values of pairs the statement leaves open (|int|>2^53 vs float, ordering of booleans/arrays/maps, distinct equal maps) are only checked through the laws.", "DESIGN.md 5/C09"),
 "C15": ("exploration", "runtime monitor: array-filter laws + receiver re-render + Go-binding snapshot comparison",
         "All arrays of length 0..4 over four 4-symbol alphabets x 6 Go representations ([]any with spare capacity, typed slice, fixed array, Drop of array by value and by pointer, ordered map) x every array filter, ranges as arrays, arrays of maps with present/absent/nil keys, and 1e5 / 2e6 PRNG arrays and filter chains are rendered by the real code. Each case prints the result element by element and the receiver again afterwards; the Go binding is compared with a fresh identical realisation.",
         "Order among incomparable elements under sort and sort_natural beyond 'permutation' are not asserted.", "DESIGN.md 5/C15"),
 "C16": ("exploration", "runtime monitor: per-filter laws computed on characters",
         "All strings up to length 4 (quick) / 5 (thorough) over an 11-symbol alphabet with 2- and 4-byte characters and HTML/URL specials, plus 3e4 / 1e6 PRNG strings, through every string filter of the statement with PRNG-chosen integer (-3..12) and string arguments; oracles are the laws of the statement (concatenation, case mapping, whitespace stripping, substitution, split/join inverse, character counting for size/slice/truncate/truncatewords, escape/escape_once, url round trip, UTF-8 validity, non-string receivers).",
         "Argument tuples are sampled per string, not enumerated; laws are as lenient as the statement (e.g. non-ASCII case mapping optional).", "DESIGN.md 5/C16"),
 "C17": ("exploration", "runtime monitor: exact rational arithmetic (math/big) as reference",
         "All ordered pairs of a ~150-value numeric universe (small ints, boundary magnitudes to 2^53, quarters, numeric and non-numeric strings, nil) x the nine numeric filters, in PRNG integer/float widths and as literals; chains of 2..5 filters and algebraic identities; expected values from exact rational arithmetic, errors for zero divisors and non-numeric strings.",
         "Integer division and modulo accept both truncating and flooring conventions; an exact value spelled in exponent notation is accepted; nil operands and numeric-string arguments are not asserted.", "DESIGN.md 5/C17"),
 "C10": ("exploration", "runtime monitor: reference branch-selection model + poison branches + if/unless duality (metamorphic)",
         "Every plain universe value (canonical and in PRNG Go realisations) is used as the condition at every branch position of if/elsif chains of 1..6 branches and of unless, and every ordered universe pair as case subject x when value in five clause layouts; branches after the selected one carry conditions that fail when evaluated. 9e4 (quick) / 2e6 (thorough) PRNG conditions and programs are compared with the reference model and through the if/unless duality.",
         "Trusts ref (truthiness, ==) as a reading of the statement; case pairs whose == is not stated (two maps) are skipped.", "DESIGN.md 5/C10"),
 "C11": ("exploration", "runtime monitor: reference loop-trace model over an exhaustive modifier grid + PRNG nestings",
         "The grid length 0..7 x offset x limit x reversed x for/tablerow(cols) x 7 collection representations x break/continue is rendered by the real code and the per-iteration trace [item|index|index0|rindex|rindex0|length|first|last] compared with the reference model; ranges for all endpoint pairs in -3..6, maps as multisets, ordered maps, cycle round-robin per loop/group, invariants for negative modifiers, and 3e4 / 6e5 PRNG nestings.",
         "tablerow compared structurally (attributes stripped); map order not compared; negative modifiers, cols<=0, tablerow after break and loops over scalars are outside the statement.", "DESIGN.md 5/C11"),
 "C12": ("exploration", "runtime monitor: variable probes (registered tag reading Context.Get) vs reference environment + capture equivalence (metamorphic)",
         "2e4 / 4e5 PRNG programs with a probe after every construct (inside blocks, later iterations, after loops ended by break, in included cached templates) are rendered and every probe dump compared with the environment the reference model tracks; 3e4 / 6e5 fragments of the general generator are compared with their capture-wrapped form.",
         "Leak-back of assignments made inside an included file is not asserted; probes truncate long strings to a length+hash.", "DESIGN.md 5/C12"),
 "C01": ("exploration", "runtime monitor at the API boundary: panic/fatal/result-shape oracle + logical step budget (verifhook.Step), child processes with crash attribution",
         "Every registered standard filter x receiver x argument tuples from a ~85-value boundary universe (exhaustive; args from the reduced universe in quick), an exhaustive operator/tag matrix over U^2, and 1.5e5 (quick) / 3e6 (thorough) hostile sources (PRNG bytes, delimiter strings, mutations of generated programs and of the template literals harvested from /repo's own tests, selector and oversized-literal injections) are parsed and rendered by the real code in worker processes. Oracle: no panic reaches the API, no worker dies or exceeds 60 CPU-s on a case, result is output xor non-nil SourceError, hook step count within a budget proportional to tokens x loop extent^nesting.",
         "Sampling beyond the enumerated matrices; inputs that can spell an unbounded range are skipped (counted in evidence); work at unhooked sites is only bounded by the CPU watchdog.", "DESIGN.md 5/C01"),
 "C20": ("fault_enumeration", "fault injection through the caller-supplied io.Writer, exhaustive over write index x fault shape per template",
         "For each of 4e3 (quick) / 8e4 (thorough) templates covering every tag (tablerow, include, capture, raw, trim markers, user tag/block) the fault-free FRender is recorded (W writes, output O); then every k in 0..W and three fault shapes (accept nothing, accept half, fail once then accept) are injected via FRender/ParseAndFRender. Oracle: no panic, non-nil SourceError carrying the injected sentinel, accepted bytes are a prefix of O.",
         "Exhaustive over (k, shape) per generated template; templates themselves are sampled. A nondeterministic fault-free render is skipped (C02 decides that).", "DESIGN.md 5/C20"),
 # id: (level, technique, text, note, design_ref)
 "C05": ("exploration", "runtime monitor: identity/partition/line-law oracles over exhaustive short strings and PRNG bytes",
         "Every string over an 8-symbol delimiter alphabet up to length 6 (quick) / 8 (thorough) is pushed through parser.Scan and parse+render of the real code; oracles: token sources concatenate to the input, token line = start + preceding newlines, no-open sources render to themselves, raw bodies verbatim, comment bodies inert and unevaluated (probe tag), string values printed exactly. Exhaustive for the bounded alphabet, sampled (PRNG bytes/UTF-8 to 64 KiB) beyond.",
         "Trusts ref.Tokens (frozen tokenizer written from the property text) to decide which raw/comment bodies are well-formed; says nothing about strings outside the enumerated/sampled sets.", "DESIGN.md 5/C05"),
}
NA = {}
def main():
    props=[json.loads(l)["id"] for l in open("/verif/properties.jsonl")]
    hooks_commits = subprocess.run(["git","-C","/repo","log","--format=%H","--grep=^verif hooks"],capture_output=True,text=True).stdout.split()
    m = {"version":1,
      "setup_cmd":"./run.sh --setup",
      "hooks":{"guard":"verif","enable":"go build -tags verif (run.sh builds harness/cmd/vcheck against /repo with -tags verif)",
               "baseline_off_cmd":"cd /repo && GOFLAGS=-mod=mod GOPROXY=off GOSUMDB=off go test -vet=off -count=1 ./...",
               "source_commits":hooks_commits,"add_only":True},
      "engines":[{"name":"vcheck","path":"harness/cmd/vcheck","serves_properties":sorted(CHECKS),"kind_free_text":"Go driver+workers: runs the real library (built from /repo with -tags verif) over enumerated and PRNG workloads in child processes; monitors at the API boundary, reference model in harness/ref"}],
      "checks":[], "not_applicable":[],
      "notes":"All checks: ./run.sh <ID> quick|thorough; VERIF_SEED selects the PRNG stream; exit 0 held / 1 violation / 2 inconclusive. known_findings.txt lists known and fixed defects."}
    for pid in props:
        if pid in CHECKS:
            level,tech,text,note,ref = CHECKS[pid]
            m["checks"].append({"property_id":pid,"quick_cmd":f"./run.sh {pid} quick","thorough_cmd":f"./run.sh {pid} thorough",
              "evidence_file":f"/verif/evidence/{pid}.json","replay_cmd_template":f"./run.sh {pid} --replay {{path}}","engine":"vcheck",
              "level_claimed":{"category":level,"text":text,"design_ref":ref},"level_note":note,"technique":tech})
        else:
            m["not_applicable"].append({"property_id":pid,"reason":NA.get(pid,"check not built yet in this round (in scope for runtime monitoring; see DESIGN.md section 5)")})
    json.dump(m,open("/verif/MANIFEST.json","w"),indent=1)
main()
