package props

import (
	"fmt"
	"math"
	"strings"

	"github.com/osteele/liquid"

	"verif/harness/core"
	"verif/harness/gen"
	"verif/harness/ref"
)

func init() {
	core.Register(&core.Prop{
		ID:    "C10",
		Level: "exploration",
		Rule: "EXHAUSTIVE: every plain universe value (canonical and in 3 PRNG-chosen Go realisations incl. Drops/typed/pointer) as the condition of every branch position of if/elsif chains with 1..6 branches (all other conditions fixed false before / poisoned after), the same for unless, and as case subject x when-list (single, first of two, second of two, absent with else, absent without else) over all ordered universe pairs; duality if/else == unless/else for generated conditions; every Go universe value as operand of and/or with a constant must select the branch it selects as a bare condition; PRNG programs of nested conditionals mixed with loops against the reference model. Non-trivial = the selected branch is not the first one or the value is not a boolean literal; distinct = distinct (template, bindings descriptor).",
		Exhaustive: func(string) bool { return true },
		Assumptions: []string{
			"branches after the selected one carry poison conditions (division by zero, unknown-filter is a parse-time error so only runtime poisons are used) which must not be evaluated",
			"case/when pairs whose == the statement leaves open (two maps) are skipped and counted",
		},
		Run: runC10,
	})
}

const poison = "1 | divided_by: 0"

// whenPoison fails when evaluated and is legal where the grammar wants a plain expression:
// a range whose endpoint is not an integer (README: only integers can be range endpoints).
const whenPoison = `("x"..1)`

func runC10(c *core.Ctx) {
	e := liquid.NewEngine()
	U := plainU()
	idx := 0
	// --- if / unless chains -------------------------------------------------
	for n := 1; n <= 6; n++ {
		for pos := 0; pos < n; pos++ {
			for _, unless := range []bool{false, true} {
				if unless && pos > 0 {
					continue // unless admits no elsif
				}
				// branch i<pos: false; branch pos: v ; branches after pos: poison ; else marker
				var sb strings.Builder
				kw, end := "if", "endif"
				if unless {
					kw, end = "unless", "endunless"
				}
				for i := 0; i < n && (!unless || i == 0); i++ {
					cond := "fa"
					switch {
					case i == pos:
						cond = "v"
					case i > pos:
						cond = poison
					case i%2 == 1:
						cond = "nothing"
					}
					if i == 0 {
						fmt.Fprintf(&sb, "{%% %s %s %%}B%d", kw, cond, i)
					} else {
						fmt.Fprintf(&sb, "{%% elsif %s %%}B%d", cond, i)
					}
				}
				withElse := (n+pos)%2 == 0
				if withElse {
					sb.WriteString("{% else %}E")
				}
				fmt.Fprintf(&sb, "{%% %s %%}", end)
				src := sb.String()
				tpl, pr := core.ParsePlain(e, src)
				if !pr.OK() {
					c.Violate("chain|parse", "a well-formed conditional chain does not parse", map[string]any{"source": src, "observed": pr.Brief()})
					continue
				}
				for ui, u := range U {
					for rep := 0; rep < 4; rep++ {
						idx++
						if !c.Mine(idx) {
							continue
						}
						var gv any
						if rep == 0 {
							gv = gen.Canon(u.V)
						} else {
							gv = gen.Realise(u.V, c.Rand(idx), gen.AllReps, true)
						}
						b := map[string]any{"v": gv, "fa": false}
						if !c.Begin(fmt.Sprintf("chain:%s v=%s", src, gen.Describe(gv))) {
							continue
						}
						truthy := ref.Truthy(u.V)
						if unless {
							truthy = !truthy
						}
						want := ""
						switch {
						case truthy:
							want = fmt.Sprintf("B%d", pos)
						case unless || pos == n-1:
							// value falsy: remaining branches are poison unless pos is last
							if withElse {
								want = "E"
							}
						default:
							// falls through to a poison condition: must fail
							want = "\x00error"
						}
						r := core.Render(tpl, b)
						c.Eval(1)
						c.Obs("chain_cases", 1)
						if pos > 0 || u.V.K != gen.KBool {
							c.Distinct("chain", src, gen.Describe(gv))
						}
						ok := false
						if want == "\x00error" {
							ok = r.Failed()
						} else {
							ok = r.OK() && r.Out == want
						}
						if !ok {
							c.Violate(fmt.Sprintf("chain|%s|%s", kw, resClass(r)),
								"if/elsif/else (or unless) did not render exactly the first branch whose condition is truthy, or evaluated a later condition",
								map[string]any{"source": src, "v": gen.Describe(gv), "logical": u.V.String(), "expected": strings.ReplaceAll(want, "\x00", "<"), "observed": r.Brief()})
						}
						if idx%9001 == 1 {
							c.Sample(map[string]any{"source": src, "v": gen.Describe(gv), "expected": want, "observed": r.Brief()})
						}
						_ = ui
					}
				}
			}
		}
	}
	// --- literal conditions ---------------------------------------------------
	for _, u := range U {
		if u.Lit == "" {
			continue
		}
		idx++
		if !c.Mine(idx) || !c.Begin("literal-cond:"+u.Lit) {
			continue
		}
		want := "F"
		if ref.Truthy(u.V) {
			want = "T"
		}
		expectOut(c, e, "{% if "+u.Lit+" %}T{% else %}F{% endif %}", nil, want, "literal-cond", "truthiness of a literal condition", nil)
		c.Distinct("lit", u.Lit)
	}
	// --- case / when over U x U ------------------------------------------------
	forms := []struct{ name, src string }{
		{"single", "{% case a %}{% when b %}W{% else %}E{% endcase %}"},
		{"first-of-two", "{% case a %}{% when b, other %}W{% when " + whenPoison + " %}P{% else %}E{% endcase %}"},
		{"second-of-two", "{% case a %}{% when other, b %}W{% else %}E{% endcase %}"},
		{"second-clause", "{% case a %}{% when other %}O{% when b %}W{% when " + whenPoison + " %}P{% endcase %}"},
		{"no-else", "{% case a %}{% when b %}W{% endcase %}"},
		{"literal-then-variable", "{% case a %}{% when 'no-such-literal', b %}W{% else %}E{% endcase %}"},
		{"literal-then-variable-2", "{% case a %}{% when 123456, other %}O{% when 'zz', b, 'yy' %}W{% endcase %}"},
	}
	for fi, f := range forms {
		tpl, pr := core.ParsePlain(e, f.src)
		if !pr.OK() {
			c.Violate("case|parse", "a well-formed case does not parse", map[string]any{"source": f.src, "observed": pr.Brief()})
			continue
		}
		for _, ua := range U {
			for _, ub := range U {
				idx++
				if !c.Mine(idx) {
					continue
				}
				eq := ref.Equal(ua.V, ub.V)
				if eq == ref.Unspec {
					c.Skip("case: == between these values is not determined by the statement")
					continue
				}
				r := c.Rand(idx)
				var ga, gb any = gen.Canon(ua.V), gen.Canon(ub.V)
				if r.Bool() {
					ga = gen.Realise(ua.V, r, gen.AllReps, true)
					gb = gen.Realise(ub.V, r, gen.AllReps, true)
				}
				// "other" must equal nothing in U: a unique string
				b := map[string]any{"a": ga, "b": gb, "other": "\x01no-such-value"}
				if !c.Begin(fmt.Sprintf("case:%s a=%s b=%s", f.src, gen.Describe(ga), gen.Describe(gb))) {
					continue
				}
				want := "W"
				if eq == ref.False {
					switch fi {
					case 0, 2, 5:
						want = "E"
					case 1, 3:
						want = "\x00error" // the poison clause is reached
					default:
						want = ""
					}
				}
				res := core.Render(tpl, b)
				c.Eval(1)
				c.Obs("case_cases", 1)
				c.Distinct("case", f.name, gen.Describe(ga), gen.Describe(gb))
				ok := res.OK() && res.Out == want
				if want == "\x00error" {
					ok = res.Failed()
				}
				if !ok {
					c.Violate("case|"+f.name+"|"+resClass(res), "case did not render the first when clause listing a value equal to its subject (else the else clause), or evaluated a later clause",
						map[string]any{"source": f.src, "a": gen.Describe(ga), "b": gen.Describe(gb), "expected": strings.ReplaceAll(want, "\x00", "<"), "observed": res.Brief()})
				}
			}
		}
	}
	// --- duality over every Go value of the universe (nil slices and maps, nil pointers, structs, ...) ------
	for ui, u := range gen.PlainDataUniverse() {
		idx++
		if !c.Mine(idx) || !c.Begin("duality-universe:"+u.Name) {
			continue
		}
		for _, form := range [][2]string{{"{% if v %}A{% else %}B{% endif %}", "{% unless v %}B{% else %}A{% endunless %}"},
			{"{% if v %}A{% endif %}|{% if v == nil %}N{% endif %}", "{% unless v %}{% else %}A{% endunless %}|{% unless v != nil %}N{% endunless %}"}} {
			uu := gen.PlainDataUniverse()
			r1 := core.Run(e, form[0], map[string]any{"v": uu[ui].Go})
			r2 := core.Run(e, form[1], map[string]any{"v": uu[ui].Go})
			c.Eval(2)
			c.Obs("duality_universe_cases", 1)
			c.Distinct("dualu", u.Name, form[0])
			if !r1.Same(r2) || r1.Panic != "" {
				c.Violate("duality-universe|"+kindOf(u), "if/else and unless/else disagree for a binding value", map[string]any{"value": gen.Describe(uu[ui].Go), "if": form[0] + " => " + r1.Brief(), "unless": form[1] + " => " + r2.Brief()})
			}
		}
	}
	// --- a condition built with and/or from one operand and a constant is truthy exactly when the operand is ----
	// (every Go value of the universe: ordered maps, nil slices, pointers, Drops, structs, ...)
	logic := []string{"v and tr", "tr and v", "v or fa", "fa or v", "nothing or v", "v and v", "v or v", "v and tr and v", "fa or nothing or v"}
	for ui, u := range gen.PlainDataUniverse() {
		idx++
		if !c.Mine(idx) || !c.Begin("logic-universe:"+u.Name) {
			continue
		}
		base := core.Run(e, "{% if v %}A{% else %}B{% endif %}", map[string]any{"v": gen.PlainDataUniverse()[ui].Go})
		// what the bare condition must select: only nil and false are falsy - a nil pointer is nil, a Drop is its value
		wantBare := "A"
		switch u.Name {
		case "nil", "false", "nilstructptr", "dropnil", "nildropptr":
			wantBare = "B"
		}
		for _, place := range []string{"v", "h.v", "l[0]", "l.last", "d.v"} {
			uu := gen.PlainDataUniverse()
			val := uu[ui].Go
			rb := core.Run(e, "{% if "+place+" %}A{% else %}B{% endif %}|{% unless "+place+" %}B{% else %}A{% endunless %}|{% if fa %}{% elsif "+place+" and tr %}A{% else %}B{% endif %}",
				map[string]any{"v": val, "h": map[string]any{"v": val}, "l": []any{val}, "d": gen.DropV{X: map[string]any{"v": val}}, "tr": true, "fa": false})
			c.Eval(1)
			c.Obs("truthiness_universe_cases", 1)
			if !rb.OK() || rb.Out != wantBare+"|"+wantBare+"|"+wantBare {
				c.Violate("truthiness-universe|"+kindOf(u)+"|"+place, "every value except nil and false is truthy (a nil pointer is nil, a Drop is its value, empty and nil collections are truthy), wherever the value is reached from",
					map[string]any{"value": gen.Describe(val), "reached_as": place, "expected_branch": wantBare, "observed": rb.Brief()})
			}
		}
		for _, l := range logic {
			for _, form := range []string{"{% if " + l + " %}A{% else %}B{% endif %}", "{% unless " + l + " %}B{% else %}A{% endunless %}", "{% if fa %}X{% elsif " + l + " %}A{% else %}B{% endif %}"} {
				uu := gen.PlainDataUniverse()
				r1 := core.Run(e, form, map[string]any{"v": uu[ui].Go, "tr": true, "fa": false})
				c.Eval(1)
				c.Obs("logic_universe_cases", 1)
				c.Distinct("logicu", u.Name, form)
				if !r1.Same(base) || r1.Panic != "" {
					c.Violate("logic-universe|"+kindOf(u), "a value is truthy as a bare condition but not as an operand of and/or (or the reverse): the wrong branch is rendered",
						map[string]any{"value": gen.Describe(uu[ui].Go), "bare": "{% if v %}A{% else %}B{% endif %} => " + base.Brief(), "compound": form + " => " + r1.Brief()})
				}
			}
		}
	}
	// --- a condition that cannot be evaluated fails the render in either spelling: unless is if with the condition negated, not
	// if with the error taken for false
	if c.Shard == 18%c.NShards && c.Begin("failing conditions") {
		for _, cond := range []string{"n | divided_by: zero", "(word..n)", "n | nosuchfilter", "n | plus: word", "word | slice: word", "st.Failing", "n | divided_by: zero and tr", "fa or n | modulo: zero"} {
			b := map[string]any{"n": 7, "zero": 0, "word": "w", "tr": true, "fa": false, "st": gen.MethodStruct{Title: "t"}}
			rIf := core.Run(e, "{% if "+cond+" %}A{% else %}B{% endif %}", b)
			rUn := core.Run(e, "{% unless "+cond+" %}B{% else %}A{% endunless %}", b)
			rEl := core.Run(e, "{% if fa %}X{% elsif "+cond+" %}A{% else %}B{% endif %}", b)
			c.Eval(3)
			c.Obs("failing_condition_cases", 1)
			c.Distinct("failcond", cond)
			if !rUn.Same(rIf) && !(rUn.Failed() && rIf.Failed()) || !rEl.Same(rIf) && !(rEl.Failed() && rIf.Failed()) || rUn.Panic != "" {
				c.Violate("if-unless-duality|failing-condition", "{% if c %}A{% else %}B{% endif %} and {% unless c %}B{% else %}A{% endunless %} render identically for every condition - also one whose evaluation fails",
					map[string]any{"condition": cond, "if": rIf.Brief(), "unless": rUn.Brief(), "elsif": rEl.Brief()})
			}
		}
	}
	// --- an else clause of a case is the fallback wherever it stands among the when clauses --------------------------------------
	if c.Shard == 17%c.NShards && c.Begin("case-else-position") {
		for _, cs := range []struct {
			src  string
			want map[int]string
		}{
			{"{% case x %}{% else %}E{% when 1 %}one{% endcase %}", map[int]string{1: "one", 2: "E"}},
			{"{% case x %}{% when 2 %}two{% else %}E{% when 1 %}one{% endcase %}", map[int]string{1: "one", 2: "two", 3: "E"}},
			{"{% case x %}{% else %}E{% when 1, 2 %}few{% when 3 %}three{% endcase %}", map[int]string{1: "few", 2: "few", 3: "three", 4: "E"}},
			{"{% case x %}{% when 1 %}one{% else %}E{% endcase %}", map[int]string{1: "one", 2: "E"}},
		} {
			for x, want := range cs.want {
				expectOut(c, e, cs.src, map[string]any{"x": x}, want, "case-else-position", "case renders the first when clause listing a value equal to its subject, otherwise the else clause - wherever the else clause stands", nil)
				c.Obs("case_else_position_cases", 1)
				c.Distinct("caseelse", cs.src, fmt.Sprint(x))
			}
		}
	}
	// --- case/when is defined through ==: for every pair of Go universe values the two agree ----------------------------------
	{
		U := gen.PlainDataUniverse()
		for ai := range U {
			for bi := range U {
				idx++
				if !c.Mine(idx) {
					continue
				}
				uu := gen.PlainDataUniverse()
				b := map[string]any{"a": uu[ai].Go, "b": uu[bi].Go}
				if !c.Begin("case-vs-eq:" + uu[ai].Name + "~" + uu[bi].Name) {
					continue
				}
				eq := core.Run(e, "{% if a == b %}W{% else %}E{% endif %}", b)
				cs := core.Run(e, "{% case a %}{% when b %}W{% else %}E{% endcase %}", b)
				sw := core.Run(e, "{% case b %}{% when a %}W{% else %}E{% endcase %}", b)
				c.Eval(3)
				if !sw.Same(cs) {
					c.Violate("case|asymmetric|"+kindOf(U[ai])+"~"+kindOf(U[bi]), "== is symmetric, so {% case a %}{% when b %} and {% case b %}{% when a %} select alike",
						map[string]any{"a": gen.Describe(uu[ai].Go), "b": gen.Describe(uu[bi].Go), "case_a_when_b": cs.Brief(), "case_b_when_a": sw.Brief()})
				}
				c.Obs("case_vs_eq_pairs", 1)
				c.Distinct("casevseq", uu[ai].Name, uu[bi].Name)
				if !eq.Same(cs) || eq.Panic != "" {
					c.Violate("case|disagrees-with-==|"+kindOf(U[ai])+"~"+kindOf(U[bi]), "case selects the when clause whose value equals the subject by ==: for the same two values {% if a == b %} and {% case a %}{% when b %} must agree",
						map[string]any{"a": gen.Describe(uu[ai].Go), "b": gen.Describe(uu[bi].Go), "if_==": eq.Brief(), "case_when": cs.Brief()})
				}
			}
		}
	}
	// --- case over integers of every width and signedness: the when clause that equals the subject by numeric value ---
	if c.Shard == 5%c.NShards && c.Begin("case-integer-widths") {
		type iv struct {
			g any
			s string
		}
		vals := []iv{{uint64(math.MaxUint64), "18446744073709551615"}, {uint64(1) << 63, "9223372036854775808"}, {uint8(255), "255"}, {uint(5), "5"}, {int8(-1), "-1"}, {int64(-1), "-1"}, {int64(math.MinInt64), "-9223372036854775808"},
			{5, "5"}, {int16(255), "255"}, {gen.NInt(5), "5"}, {uintptr(255), "255"}, {-1, "-1"}}
		for _, sub := range vals {
			for _, w1 := range vals {
				for _, w2 := range vals {
					want := "else"
					switch {
					case sub.s == w1.s:
						want = "first"
					case sub.s == w2.s:
						want = "second"
					}
					src := "{% case s %}{% when a %}first{% when b %}second{% else %}else{% endcase %}|{% case s %}{% when a, b %}listed{% endcase %}"
					w := want + "|"
					if want != "else" {
						w += "listed"
					}
					res := core.Run(e, src, map[string]any{"s": sub.g, "a": w1.g, "b": w2.g})
					c.Eval(1)
					c.Obs("case_integer_width_cases", 1)
					c.Distinct("caseint", gen.Describe(sub.g), gen.Describe(w1.g), gen.Describe(w2.g))
					if !res.OK() || res.Out != w {
						c.Violate("case|integer-widths", "case must select the first when clause whose value equals the subject by numeric value, whatever the integer widths and signedness",
							map[string]any{"subject": gen.Describe(sub.g), "when_1": gen.Describe(w1.g), "when_2": gen.Describe(w2.g), "expected": w, "observed": res.Brief()})
					}
				}
			}
		}
	}
	// --- a selected branch that renders something and then leaves the enclosing loop: what it rendered stays ----------
	for i := 0; i < c.Pick(300, 6000); i++ {
		idx++
		if !c.Mine(idx) {
			continue
		}
		r := c.Rand(idx, 79)
		at := r.Range(1, 4)
		ctl := []string{"break", "continue"}[r.Intn(2)]
		shape := r.Intn(5)
		var branch string
		mark := "[" + ctl + " at {{ i }}]"
		switch shape {
		case 0:
			branch = "{% if i == " + fmt.Sprint(at) + " %}" + mark + "{% " + ctl + " %}{% endif %}"
		case 1:
			branch = "{% unless i != " + fmt.Sprint(at) + " %}" + mark + "{% " + ctl + " %}{% else %}-{% endunless %}"
		case 2:
			branch = "{% if i > 9 %}never{% elsif i == " + fmt.Sprint(at) + " %}" + mark + "{% " + ctl + " %}after{% else %}+{% endif %}"
		case 3:
			branch = "{% case i %}{% when 9 %}never{% when " + fmt.Sprint(at) + " %}" + mark + "{% " + ctl + " %}{% else %}={% endcase %}"
		default:
			branch = "{% if i < 9 %}{% if i == " + fmt.Sprint(at) + " %}{% capture cap %}c{{ i }}{% endcapture %}" + mark + "{{ cap }}{% " + ctl + " %}{% endif %}~{% endif %}"
		}
		src := "{% for i in (1..4) %}" + branch + "{{ i }};{% endfor %}"
		if !c.Begin("branch-then-interrupt:" + src) {
			continue
		}
		want := ""
		for k := 1; k <= 4; k++ {
			if k == at {
				want += fmt.Sprintf("[%s at %d]", ctl, k)
				if shape == 4 {
					want += fmt.Sprintf("c%d", k)
				}
				if ctl == "break" {
					break
				}
				continue
			}
			want += []string{"", "-", "+", "=", "~"}[shape] + fmt.Sprintf("%d;", k)
		}
		expectOut(c, e, src, nil, want, "branch-then-interrupt", "a conditional renders the selected branch - also when that branch ends with break or continue, what it rendered before is output", nil)
		c.Obs("branch_then_interrupt_cases", 1)
		c.Distinct("bti", src)
	}
	// --- duality and random programs --------------------------------------------
	m := &ref.Model{}
	n := c.Pick(90000, 2000000)
	for i := 0; i < n; i++ {
		if !c.Mine(i) {
			continue
		}
		r := c.Rand(i, 77)
		env := gen.StdEnv(r)
		f := gen.Features{Loops: true, Assign: true, Case: true, Capture: true, Cycle: true, Filters: true, Model: true, MaxDepth: 4, MaxNodes: 14}
		g := gen.NewG(r, f, env)
		if i%3 == 0 {
			cond := g.Cond(0)
			cs := gen.DefaultStyle.ExprSource(cond)
			if !c.Begin("duality:" + cs + " env=" + env.String()) {
				continue
			}
			b := gen.CanonEnv(env)
			r1 := core.Run(e, "{% if "+cs+" %}A{% else %}B{% endif %}", b)
			r2 := core.Run(e, "{% unless "+cs+" %}B{% else %}A{% endunless %}", b)
			c.Eval(2)
			c.Obs("duality_cases", 1)
			c.Distinct("dual", cs, env.String())
			if !r1.Same(r2) || r1.Panic != "" {
				c.Violate("duality|"+resClass(r1), "{% if c %}A{% else %}B{% endif %} and {% unless c %}B{% else %}A{% endunless %} render differently",
					map[string]any{"condition": cs, "bindings": env.String(), "if": r1.Brief(), "unless": r2.Brief()})
			}
			if v, s := m.Eval(cond, env); s == ref.OK {
				want := "B"
				if ref.Truthy(v) {
					want = "A"
				}
				if r1.OK() && r1.Out != want {
					c.Violate("condition|wrong-branch", "a generated condition selected the wrong branch",
						map[string]any{"condition": cs, "bindings": env.String(), "expected": want, "observed": r1.Brief()})
				}
			}
			continue
		}
		prog := g.Program()
		src := gen.DefaultStyle.Source(prog)
		if !c.Begin("program:" + src + " env=" + env.String()) {
			continue
		}
		var bind map[string]any
		if i%2 == 1 { // the same logical bindings carried by Drops: loops then re-bind a name to one Drop after another
			bind = gen.RealiseEnv(env, c.Rand(i, 78), gen.Rep{Drops: true})
		}
		if modelCompare(c, e, m, prog, env, bind, gen.DefaultStyle, "program", "a generated program of conditionals and loops rendered differently from the reference model") {
			c.Obs("program_cases", 1)
			c.Distinct("prog", src, env.String())
			if i%4001 == 2 {
				c.Sample(map[string]any{"source": src, "bindings": core.Trunc(env.String(), 300)})
			}
		}
	}
}
