package props

import (
	"fmt"
	"math"
	"strings"
	"time"

	"github.com/osteele/liquid"

	"verif/harness/core"
	"verif/harness/gen"
)

func init() {
	core.Register(&core.Prop{
		ID:         "C18",
		Level:      "exploration",
		Rule:       "for each (template, logical environment) the canonical realisation ([]any, map[string]any, int, float64, string; no pointers, no Drops) is the baseline and 8 (quick) / 24 (thorough) alternative realisations, chosen independently at every node of the value tree, must reproduce its result (bytes, or failure). Five families, each using a representation class only where the statement names it: (1) Drops by value and by pointer at any depth + typed slices, fixed arrays and map[string]T, under generated programs with every tag and filter family; (2) every integer/float width incl. unsigned under print, all comparison operators, case/when and the arithmetic filters, and unsigned values beyond int64 (as uint64, uint, uintptr, in a Drop) against the same integer in every width that holds it under print, comparison in both operand orders, case/when, sort and contains; (3) pointers on values reached by variable or property lookup; (4) yaml.MapSlice under lookup and size; (5) []byte under printing and as string-filter receiver. Non-trivial = the alternative realisation differs from the canonical one in at least one node; distinct = distinct (template, realisation descriptor).",
		Exhaustive: func(string) bool { return false },
		Assumptions: []string{
			"json and inspect are compared across Drops, pointers and typed containers nested in the value (they spell data); across integer widths, []byte and ordered maps they, and type, expose the Go representation by design and are not used",
			"how often ToLiquid is called is not asserted; struct-vs-map equivalence is not asserted (README: structs have no size)",
			"integer widths are used only where the statement names them (print, compare, arithmetic), not as indices or loop modifiers",
		},
		MinEvents: map[string]int64{"alternative_realisations_compared": 5000},
		Run:       runC18,
	})
}

func c18Compare(c *core.Ctx, e *liquid.Engine, family, src string, env gen.Env, rep gen.Rep, nAlt int, idx int) {
	tpl, pr := core.ParsePlain(e, src)
	if !pr.OK() {
		if pr.Panic != "" {
			c.Violate(family+"|parse-panic", "parsing panicked", map[string]any{"source": src, "observed": pr.Brief()})
		}
		return
	}
	base := core.Render(tpl, gen.CanonEnv(env))
	c.Eval(1)
	if base.Panic != "" {
		c.Skip("canonical realisation panics (C01's business)")
		return
	}
	if family == "drops-typed" && strings.Contains(base.Out, "[") {
		// a map or an array turned into text by a string filter: Go syntax ("[a 8]", "map[k:v]"), which no property
		// defines (generated literal text never contains a bracket)
		c.Skip("output spells a map or array in Go syntax (not defined by the properties)")
		return
	}
	for a := 0; a < nAlt; a++ {
		r := c.Rand(idx, uint64(a)+100)
		b := gen.RealiseEnv(env, r, rep)
		desc := gen.DescribeEnv(b)
		res := core.Render(tpl, b)
		c.Eval(1)
		c.Obs("alternative_realisations_compared", 1)
		c.Obs("family:"+family, 1)
		if desc != gen.DescribeEnv(gen.CanonEnv(env)) {
			c.Distinct(src, desc)
		}
		same := base.OK() && res.OK() && base.Out == res.Out || base.Failed() && res.Failed()
		if !same {
			key := family + "|" + resClass(res) + "|" + c18Feature(src)
			c.Violate(key, "the same template and logical bindings render differently under another Go representation of the bindings",
				map[string]any{"family": family, "source": src, "logical_bindings": env.String(), "realisation": desc, "canonical_result": base.Brief(), "alternative_result": res.Brief()})
			return
		}
	}
}

// c18Feature names the most specific construct of a short template, for violation keys.
func c18Feature(src string) string {
	for _, f := range []string{"sort_natural", "sort", "uniq", "join", "map", "concat", "compact", "reverse", "first", "last", "size", "contains", "case", "tablerow", "for ",
		"divided_by", "modulo", "plus", "minus", "times", "round", "ceil", "floor", "abs", "slice", "truncate", "split", "replace", "append", "prepend", "upcase", "downcase",
		"capitalize", "strip", "escape", "url_encode", "default", "date", "==", "!=", "<=", ">=", "<", ">", "if "} {
		if strings.Contains(src, f) {
			return strings.TrimSpace(f)
		}
	}
	return "print"
}

func runC18(c *core.Ctx) {
	e := liquid.NewEngine()
	nAlt := c.Pick(8, 24)
	// ---- (1) Drops + typed containers under generated programs -----------------------------
	n := c.Pick(40000, 800000)
	for i := 0; i < n; i++ {
		if !c.Mine(i) {
			continue
		}
		r := c.Rand(i)
		var env gen.Env
		for _, kv := range gen.StdEnv(r) {
			// turning maps and arrays of arrays into text (printing, join, string filters) yields Go syntax,
			// which no property defines; this family keeps containers flat (nested lookups are family drop-positions)
			switch kv.K {
			case "objs", "m2", "em", "nested":
				continue
			case "m":
				flat := gen.Map()
				for _, e := range kv.V.M {
					if e.V.K != gen.KArr {
						flat.M = append(flat.M, e)
					}
				}
				kv.V = flat
			}
			env = append(env, kv)
		}
		f := gen.FullFeatures()
		f.Trim = false
		f.MapLoops = true
		f.MaxNodes = 8
		g := gen.NewG(r, f, env)
		src := gen.DefaultStyle.Source(g.Program())
		if strings.Contains(src, "| json") || strings.Contains(src, "| inspect") || strings.Contains(src, "| type") {
			continue
		}
		if !c.Begin("drops+typed:" + src + " env=" + env.String()) {
			continue
		}
		rep := gen.Rep{Drops: true, Typed: i%3 != 0}
		c18Compare(c, e, "drops-typed", src, env, rep, nAlt, i)
		if i%2003 == 1 {
			c.Sample(map[string]any{"family": "drops-typed", "source": src, "one_realisation": gen.DescribeEnv(gen.RealiseEnv(env, c.Rand(i, 100), rep))})
		}
	}
	// targeted Drop positions
	dropT := []string{
		"{{ d }}", "{{ arr | join: ',' }}", "{{ arr | sort | join: ',' }}", "{{ arr | uniq | join: ',' }}", "{{ arr | first }}", "{{ arr | last }}", "{{ arr | reverse | join: ',' }}",
		"{{ arr | concat: arr | size }}", "{{ objs | map: 'name' | join: ',' }}", "{{ objs | sort: 'name' | map: 'id' | join: ',' }}", "{% if d == 2 %}T{% else %}F{% endif %}",
		"{% if arr contains d %}T{% else %}F{% endif %}", "{% case d %}{% when 2 %}two{% when 'x' %}x{% else %}other{% endcase %}", "{% for x in arr %}{{ x }},{% endfor %}",
		"{% for kv in m %}{{ kv[0] }}={{ kv[1] }};{% endfor %}", "{{ m.a }}{{ m.b }}{{ m['a'] }}{{ m.size }}", "{{ d | plus: d }}", "{{ 3 | minus: d }}", "{{ s | append: s }}",
		"{{ s | upcase }}", "{{ 'abc' | replace: s, s }}", "{% if d %}T{% endif %}{% unless nd %}U{% endunless %}", "{{ arr[d] }}{{ arr[0] }}{{ nested[1][0] }}", "{{ arr.size }}{{ arr.first }}",
		"{% assign v = d %}{{ v }}{% capture c %}{{ d }}{% endcapture %}{{ c }}", "{{ arr | compact | size }}", "{{ nested | first | first }}", "{% tablerow x in arr cols: 2 %}{{ x }}{% endtablerow %}",
		"{{ sarr | sort_natural | join: ' ' }}", "{{ sarr | join: '-' | split: '-' | last }}", "{% if s contains 'a' %}T{% endif %}{% if sarr contains s %}S{% endif %}", "{{ arr | sort | first }}{{ arr | sort | last }}", "{{ arr | sort | join: ',' }}/{{ arr | join: ',' }}/{{ sarr | sort_natural | join: ',' }}/{{ sarr | join: ',' }}",
		"{{ arr | reverse | join: ',' }}/{{ arr | join: ',' }}/{{ arr | uniq | compact | size }}/{{ arr | size }}",
		"{% for x in arr limit: d offset: 1 %}{{ x }}{% endfor %}", "{{ d | divided_by: 2 }}{{ 7 | divided_by: d }}{{ 7 | modulo: d }}", "{{ s | size }}{{ arr | size }}", "{{ s | slice: 0, d }}{{ s | truncate: 5 }}",
		"{{ d | default: 'x' }}{{ nd | default: 'dflt' }}", "{% if d < 3 and d > 1 %}T{% endif %}{% if d <= 2 or nd %}U{% endif %}",
		"{{ m }}", "{{ objs[0] }}|{{ objs | last }}", "{{ mm }}", "{% for kv in mm %}{{ kv[1] }}{% endfor %}",
		"{{ objs | sort_natural: 'name' | map: 'id' | join: ',' }}|{{ objs | sort: 'name' | map: 'name' | join: ',' }}|{{ objs | sort: 'id' | map: 'id' | join: '' }}",
		// json and inspect spell a value as data: a Drop or pointer nested in it is the value it stands for there as well
		"{{ arr | json }}|{{ holes | json }}|{{ m | json }}|{{ mm | json }}", "{{ objs | json }}|{{ sarr | inspect }}|{{ nested | json }}|{{ d | json }}|{{ nd | json }}|{{ mm.in | inspect }}",
		// nil inside containers, also as a Drop whose value is nil
		"{% if holes contains nil %}T{% else %}F{% endif %}|{% if holes contains nd %}T{% else %}F{% endif %}|{{ holes | compact | size }}|{{ holes | size }}", "{% if holes == holes2 %}T{% else %}F{% endif %}{% if holes != holes2 %}N{% endif %}{% if holes[1] == nil %}n{% endif %}{% if holes[1] %}t{% else %}f{% endif %}",
		"{% if mm.n == nil %}T{% else %}F{% endif %}{% if mm.n %}t{% else %}f{% endif %}{% if mm == mm %}R{% endif %}{% for x in holes %}{% if x == nil %}~{% else %}{{ x }}{% endif %}{% endfor %}", "{% case nd %}{% when nil %}N{% else %}E{% endcase %}{% case holes[1] %}{% when nil %}N{% else %}E{% endcase %}{{ holes | join: '-' }}{{ holes | first }}{{ holes | last }}",
	}
	for i := 0; i < len(dropT)*c.Pick(20, 200); i++ {
		if !c.Mine(i) {
			continue
		}
		r := c.Rand(i, 1)
		src := dropT[i%len(dropT)]
		names := []string{"x", "b", "a", "c", "Bc"}
		env := gen.Env{{K: "d", V: gen.Int(2)}, {K: "nd", V: gen.Nil}, {K: "s", V: gen.Str(names[r.Intn(5)])},
			{K: "arr", V: gen.Ints(int64(r.Range(1, 3)), 2, int64(r.Range(0, 3)), 1)}, {K: "sarr", V: gen.Strs(names[r.Intn(5)], names[r.Intn(5)], "a")},
			{K: "holes", V: gen.Arr(gen.Int(1), gen.Nil, gen.Str("x"), gen.Nil)}, {K: "holes2", V: gen.Arr(gen.Int(1), gen.Nil, gen.Str("x"), gen.Nil)},
			{K: "nested", V: gen.Arr(gen.Ints(1), gen.Ints(int64(r.Range(2, 5)), 3))}, {K: "m", V: gen.Map(gen.KV{K: "a", V: gen.Int(1)}, gen.KV{K: "b", V: gen.Str("bee")})},
			{K: "mm", V: gen.Map(gen.KV{K: "in", V: gen.Map(gen.KV{K: "x", V: gen.Int(int64(r.Range(0, 9)))}, gen.KV{K: "l", V: gen.Strs("p", "q")})}, gen.KV{K: "n", V: gen.Nil}, gen.KV{K: "s", V: gen.Str("str")})},
			{K: "objs", V: gen.Arr(gen.Map(gen.KV{K: "id", V: gen.Int(1)}, gen.KV{K: "name", V: gen.Str(names[r.Intn(5)])}), gen.Map(gen.KV{K: "id", V: gen.Int(2)}, gen.KV{K: "name", V: gen.Str(names[r.Intn(5)])}))}}
		if !c.Begin("drop-positions:" + src + " env=" + env.String()) {
			continue
		}
		c18Compare(c, e, "drop-positions", src, env, gen.Rep{Drops: true, Typed: i%2 == 0, Pointers: strings.HasPrefix(src, "{{ m") || strings.HasPrefix(src, "{{ objs") || strings.HasPrefix(src, "{{ arr | json")}, nAlt, i)
	}
	// ---- (2) numeric widths ---------------------------------------------------------------------
	numT := []string{
		"{{ a }}|{{ b }}", "{% if a == b %}T{% else %}F{% endif %}", "{% if a != b %}T{% else %}F{% endif %}", "{% if a < b %}T{% else %}F{% endif %}", "{% if a > b %}T{% else %}F{% endif %}",
		"{% if a <= b %}T{% else %}F{% endif %}", "{% if a >= b %}T{% else %}F{% endif %}", "{{ a == b }}{{ a < 3 }}{{ 2.5 >= b }}{{ a == 3 }}", "{{ a | plus: b }}", "{{ a | minus: b }}", "{{ a | times: b }}",
		"{{ a | divided_by: b }}", "{{ a | modulo: b }}", "{{ a | abs }}|{{ b | abs }}", "{{ a | ceil }}|{{ a | floor }}|{{ a | round }}", "{{ a | round: 1 }}|{{ b | round: 2 }}",
		"{% case a %}{% when b %}same{% when 3 %}three{% else %}other{% endcase %}", "{% if a %}T{% endif %}", "{{ a | plus: 1 | times: b | minus: a }}", "{{ 10 | minus: a }}|{{ 2.5 | times: b }}|{{ 100 | divided_by: a }}",
		// what a filter computed from the number enters later operations as the same kind of number for every width
		"{% assign n = a | plus: 1 %}{{ 7 | divided_by: n }}|{{ n }}", "{% assign n = a | times: 1 %}{% for i in (1..n) %}{{ i }}{% endfor %}", "{% assign n = a | minus: 0 %}{% for i in (1..5) limit: n %}{{ i }}{% endfor %}",
		"{% assign n = a | abs %}{{ 9 | divided_by: n }}|{{ 9 | modulo: n }}|{{ n | divided_by: 2 }}", "{% assign n = a | plus: b %}{{ 7 | divided_by: n }}{% if n == 3 %}three{% endif %}{{ n | round }}",
		"{% if arrn contains a %}T{% else %}F{% endif %}", "{{ arrn | sort | join: ',' }}", "{{ arrn | uniq | join: ',' }}", "{{ arrn | first | plus: a }}", "{% assign s = a | plus: b %}{{ s }}",
		"{% if a > 0 and b > 0 %}pos{% endif %}{% if a < b or a == b %}le{% endif %}",
	}
	for i := 0; i < len(numT)*c.Pick(40, 600); i++ {
		if !c.Mine(i) {
			continue
		}
		r := c.Rand(i, 2)
		src := numT[i%len(numT)]
		num := func() gen.V {
			if r.P(1, 3) {
				return gen.Float(float64(r.Range(-40, 40)) / 4)
			}
			return gen.Int(int64([]int{r.Range(-12, 12), r.Range(0, 300), 3, 0, 1, 255, 256, 65535, 70000, -129}[r.Intn(10)]))
		}
		a, b := num(), num()
		if r.P(1, 5) {
			b = a
		}
		if (strings.Contains(src, "divided_by") || strings.Contains(src, "modulo")) && r.P(9, 10) && b.Num() == 0 {
			b = gen.Int(3)
		}
		env := gen.Env{{K: "a", V: a}, {K: "b", V: b}, {K: "arrn", V: gen.Arr(num(), a, num())}}
		if !c.Begin("numeric-widths:" + src + " env=" + env.String()) {
			continue
		}
		c18Compare(c, e, "numeric-widths", src, env, gen.Rep{Widths: true, Unsigned: true, Typed: i%2 == 0}, nAlt, i)
	}
	// ---- (3) pointers reached by variable or property lookup ----------------------------------------
	ptrT := []string{
		"{{ p }}", "{{ m.k }}", "{{ m.inner.j }}", "{% if p == 2 %}T{% else %}F{% endif %}", "{% if p %}T{% endif %}", "{% for x in pa %}{{ x }},{% endfor %}", "{{ pa[0] }}{{ pa.size }}{{ pa.first }}",
		"{{ m.list[1] }}", "{% for x in m.list %}{{ x }}{% endfor %}", "{{ ps }}", "{% if ps == 'str' %}T{% endif %}", "{% if ps contains 't' %}T{% endif %}", "{% case p %}{% when 2 %}two{% endcase %}",
		"{% assign v = p %}{{ v }}", "{{ m.k | plus: 1 }}", "{{ p | plus: 1 }}", "{{ ps | upcase }}", "{{ pa | join: ',' }}", "{{ pm.a }}{{ pm.size }}", "{% if p < 3 %}T{% endif %}{% if m.k >= 5 %}U{% endif %}",
	}
	for i := 0; i < len(ptrT)*c.Pick(20, 300); i++ {
		if !c.Mine(i) {
			continue
		}
		src := ptrT[i%len(ptrT)]
		env := gen.Env{{K: "p", V: gen.Int(2)}, {K: "ps", V: gen.Str("str")}, {K: "pa", V: gen.Ints(4, 5, 6)}, {K: "pm", V: gen.Map(gen.KV{K: "a", V: gen.Int(1)})},
			{K: "m", V: gen.Map(gen.KV{K: "k", V: gen.Int(5)}, gen.KV{K: "inner", V: gen.Map(gen.KV{K: "j", V: gen.Str("jay")})}, gen.KV{K: "list", V: gen.Strs("x", "y")})}}
		if !c.Begin("pointers:" + src) {
			continue
		}
		c18Compare(c, e, "pointers", src, env, gen.Rep{Pointers: true, Drops: i%3 == 1}, nAlt, i)
	}
	// ---- (4) ordered maps: lookup and size -----------------------------------------------------------
	msT := []string{"{{ m.a }}", "{{ m['a'] }}", "{{ m.size }}", "{{ m.zz }}|{{ m['zz'] }}", "{{ m.inner.j }}", "{{ m[key] }}", "{{ m.inner.size }}", "{{ m.inner['j'] }}{{ m.b }}",
		"{% if m.a == 1 %}T{% endif %}", "{% assign v = m.b %}{{ v }}", "{{ ms.size }}|{{ ms.first }}", "[{{ msn.size }}]|{{ msn.a }}|{% if msn.size %}T{% else %}F{% endif %}", "{{ mse.size }}|{{ mse.a }}"}
	for i := 0; i < len(msT)*c.Pick(20, 200); i++ {
		if !c.Mine(i) {
			continue
		}
		r := c.Rand(i, 4)
		src := msT[i%len(msT)]
		inner := gen.Map(gen.KV{K: "j", V: gen.Str("jay")}, gen.KV{K: "q", V: gen.Int(int64(r.Range(0, 9)))})
		env := gen.Env{{K: "key", V: gen.Str([]string{"a", "b", "zz"}[r.Intn(3)])},
			{K: "m", V: gen.Map(gen.KV{K: "a", V: gen.Int(1)}, gen.KV{K: "b", V: gen.Str("bee")}, gen.KV{K: "inner", V: inner})},
			{K: "ms", V: gen.Map(gen.KV{K: "size", V: gen.Int(77)}, gen.KV{K: "first", V: gen.Str("f")})},
			{K: "msn", V: gen.Map(gen.KV{K: "size", V: gen.Nil}, gen.KV{K: "a", V: gen.Int(1)})}, {K: "mse", V: gen.Map()}}
		if !c.Begin("mapslice:" + src + " env=" + env.String()) {
			continue
		}
		c18Compare(c, e, "mapslice", src, env, gen.Rep{MapSlice: true, Pointers: i%2 == 1, Drops: i%4 == 3}, nAlt, i)
	}
	// ---- (5) []byte: printing and string-filter receiver ------------------------------------------------
	byT := []string{"{{ b }}", "[{{ b }}]", "{{ b | upcase }}", "{{ b | append: 'x' }}", "{{ b | replace: 'a', 'o' }}", "{{ b | slice: 1, 2 }}", "{{ b | truncate: 4 }}", "{{ b | split: ' ' | first }}",
		"{{ b | strip }}", "{{ b | escape }}", "{{ b | url_encode }}", "{{ b | capitalize }}", "{{ b | prepend: 'p' | downcase }}", "{{ b | remove: 'a' }}", "{{ b | truncatewords: 1 }}", "{{ b | lstrip | rstrip }}"}
	for i := 0; i < len(byT)*c.Pick(20, 200); i++ {
		if !c.Mine(i) {
			continue
		}
		r := c.Rand(i, 5)
		src := byT[i%len(byT)]
		env := gen.Env{{K: "b", V: gen.Str([]string{"a b c", " pad ", "héllo wörld", "<a&b>", "", "xyz"}[r.Intn(6)])}}
		if !c.Begin("bytes:" + src + " env=" + env.String()) {
			continue
		}
		c18Compare(c, e, "bytes", src, env, gen.Rep{Bytes: true}, 2, i)
	}
	// ---- (6b) fixed arrays of the generic element type, compared as wholes: [2]any is a comparable Go type, but what decides
	// is the Liquid value of the elements (a Drop of 1, an int8 1 and a 1.0 are 1), exactly as for slices
	if c.Shard == 17%c.NShards && c.Begin("fixed arrays of any") {
		one := 1
		b := map[string]any{"plain": [2]any{1, 2}, "drops": [2]any{gen.DropV{X: 1}, 2}, "widths": [2]any{int8(1), uint16(2)}, "floats": [2]any{1.0, float32(2)}, "pdrop": [2]any{&gen.DropP{X: 1}, 2},
			"slice": []any{1, 2}, "typed": [2]int{1, 2}, "other": [2]any{1, 3}, "ptr": &[2]any{1, 2}, "nested": [1]any{[2]any{gen.DropV{X: 1}, 2}}, "nestedplain": [1]any{[2]any{1, 2}}, "strs": [2]any{gen.NTitle("a"), "b"}, "strsplain": [2]any{"a", "b"}, "unused": &one}
		names := []string{"drops", "widths", "floats", "pdrop", "slice", "typed", "ptr"}
		for _, n := range names {
			src := strings.ReplaceAll("{% if X == plain %}eq{% else %}ne{% endif %}{% if plain == X %}eq{% else %}ne{% endif %}{% if X != plain %}ne{% else %}eq{% endif %}{% if X == other %}eq{% else %}ne{% endif %}"+
				"{% case X %}{% when other %}O{% when plain %}P{% else %}E{% endcase %}{% assign l = 'x,y' | split: ',' %}{{ X | first }}{{ X | last }}{{ X | size }}{{ X[1] }}", "X", n)
			expectOut(c, e, src, b, "eqeqeqneP1222", "fixed-array-of-any", "a fixed array with generic elements equals the array with the same Liquid values, whatever Go representation the elements have", map[string]any{"compared": n + " with plain = [2]any{1, 2}"})
			c.Obs("fixed_array_of_any_cases", 1)
			c.Distinct("fixedany", n)
		}
		expectOut(c, e, "{% if nested == nestedplain %}eq{% else %}ne{% endif %}{% if strs == strsplain %}eq{% else %}ne{% endif %}{% if nested contains plain %}has{% else %}not{% endif %}", b, "eqeqhas",
			"fixed-array-of-any", "a fixed array with generic elements equals the array with the same Liquid values, whatever Go representation the elements have", nil)
	}
	// ---- (6c) two bindings that hold the same map in different Go types; large whole floats in both widths -------------------
	if c.Shard == 18%c.NShards && c.Begin("maps of different Go types, large float32") {
		b := map[string]any{"gm": map[string]any{"x": 1, "y": 2}, "tm": map[string]int{"x": 1, "y": 2}, "t8": map[string]uint8{"x": 1, "y": 2}, "fm": map[string]float64{"x": 1, "y": 2}, "dm": gen.DropV{X: map[string]any{"x": 1, "y": 2}},
			"pm": &map[string]int{"x": 1, "y": 2}, "om": map[string]any{"x": 1, "y": 3}, "nm": gen.NDict{"x": 1, "y": 2}, "sm": map[string]string{"x": "1"}, "gs": map[string]any{"x": "1"}}
		for _, n := range []string{"tm", "t8", "fm", "dm", "pm", "nm"} {
			src := strings.ReplaceAll("{% if X == gm %}eq{% else %}ne{% endif %}|{% if gm != X %}ne{% else %}eq{% endif %}|{% if X == om %}eq{% else %}ne{% endif %}|{% assign l = 'a' | split: ',' %}"+
				"{% case X %}{% when om %}O{% when gm %}G{% else %}E{% endcase %}|{{ X.x }}{{ X.y }}{{ X.size }}|{% if sm == gs %}eq{% else %}ne{% endif %}", "X", n)
			expectOut(c, e, src, b, "eq|eq|ne|G|122|eq", "typed-map-equality", "a string-keyed typed map behaves as the generic map with the same contents, in comparisons and case/when too", map[string]any{"compared": n + " with gm = map[string]any{x:1, y:2}"})
			c.Obs("typed_map_equality_cases", 1)
			c.Distinct("typedmapeq", n)
		}
		for _, f := range []float64{2500000, 1 << 30, 16777216, 1e6, 123456789012, -3e9, 1 << 40} {
			if float64(float32(f)) != f {
				continue
			}
			src := "{{ n }}|{{ n | append: '!' }}|{{ l | join: ',' }}|{{ l[0] }}|{% for x in l %}{{ x }}{% endfor %}|{{ n | plus: 0 }}|{% if n == w %}eq{% endif %}"
			wide := core.Run(e, src, map[string]any{"n": f, "l": []any{f}, "w": f})
			narrow := core.Run(e, src, map[string]any{"n": float32(f), "l": []float32{float32(f)}, "w": f})
			viaDrop := core.Run(e, src, map[string]any{"n": gen.DropV{X: float32(f)}, "l": []any{&gen.DropP{X: float32(f)}}, "w": f})
			c.Eval(3)
			c.Obs("large_float32_cases", 1)
			c.Distinct("bigf32", fmt.Sprint(f))
			if !narrow.Same(wide) || !viaDrop.Same(wide) {
				c.Violate("float-widths|large-whole|"+resClass(narrow), "floats of every width print and enter arithmetic by numeric value: a whole float32 prints as the float64 of the same value does",
					map[string]any{"value": f, "source": src, "float64": wide.Brief(), "float32": narrow.Brief(), "float32_in_drops": viaDrop.Brief()})
			}
		}
	}
	// ---- (6d) unsigned values beyond int64: they have one value whatever the unsigned type that carries them, and the integer
	// they meet in a comparison, a sort or a when clause is the same integer in every width, signed or not
	if c.Shard == 19%c.NShards && c.Begin("unsigned beyond int64 against every width") {
		src := "{{ big }}|{% if big > n %}gt{% else %}le{% endif %}|{% if n < big %}lt{% else %}ge{% endif %}|{% if big == n %}eq{% else %}ne{% endif %}|{% if n != big %}ne{% else %}eq{% endif %}|{% if big <= n %}le{% else %}gt{% endif %}|{% if n >= big %}ge{% else %}lt{% endif %}|" +
			"{% case big %}{% when n %}same{% else %}other{% endcase %}|{{ l | sort | first }}|{{ l | sort | last }}|{% if l contains big %}has{% else %}not{% endif %}|{{ big == n }}{{ n > big }}"
		bigs := []uint64{1 << 63, math.MaxUint64, 1<<63 + 1, math.MaxInt64 + 2, 1 << 63 | 1 << 31}
		smalls := []int64{5, 0, 1, 127, -1, -128, 100, 255, 65535, math.MaxInt32, math.MinInt32, math.MaxInt64, math.MinInt64, -5}
		for _, big := range bigs {
			for _, n := range smalls {
				mk := func(b, v any) map[string]any { return map[string]any{"big": b, "n": v, "l": []any{v, b, v}} }
				base := core.Run(e, src, mk(big, n))
				c.Eval(1)
				alts := []any{int64(n), int(n), gen.DropV{X: n}}
				if n >= math.MinInt8 && n <= math.MaxInt8 {
					alts = append(alts, int8(n))
				}
				if n >= math.MinInt16 && n <= math.MaxInt16 {
					alts = append(alts, int16(n))
				}
				if n >= math.MinInt32 && n <= math.MaxInt32 {
					alts = append(alts, int32(n))
				}
				if n >= 0 {
					alts = append(alts, uint(n), uint64(n), uintptr(n), &gen.DropP{X: uint64(n)})
					if n <= math.MaxUint8 {
						alts = append(alts, uint8(n))
					}
					if n <= math.MaxUint16 {
						alts = append(alts, uint16(n), gen.NUint(n))
					}
					if n <= math.MaxUint32 {
						alts = append(alts, uint32(n))
					}
				}
				for _, bv := range []any{big, uint(big), uintptr(big), gen.DropV{X: big}} {
					for _, nv := range alts {
						res := core.Run(e, src, mk(bv, nv))
						c.Eval(1)
						c.Obs("alternative_realisations_compared", 1)
						c.Obs("unsigned_beyond_int64_cases", 1)
						c.Distinct("bigunsigned", fmt.Sprintf("%T/%T/%d/%d", bv, nv, big, n))
						if !res.Same(base) {
							c.Violate("integer-widths|unsigned-beyond-int64|"+resClass(res), "integers of every width compare by numeric value: an unsigned value beyond int64 meets the same integer in another width and the result changes",
								map[string]any{"source": src, "big": fmt.Sprintf("%T(%d)", bv, big), "n_canonical": fmt.Sprintf("int64(%d)", n), "n_alternative": fmt.Sprintf("%T(%v)", nv, nv), "canonical_result": base.Brief(), "alternative_result": res.Brief()})
						}
					}
				}
			}
		}
	}
	// ---- (7) empty collections: an empty array is an empty array in every Go representation, an empty map an empty map ------------
	if c.Shard == 16%c.NShards && c.Begin("empty collections") {
		tpl := "{{ v | default: 'none' }}|{{ v | size }}|{% if v == empty %}E{% else %}n{% endif %}|{% for x in v %}x{% else %}else{% endfor %}|{% if v %}T{% endif %}|{{ v | first }}|{{ v | join: ',' }}|{{ v | compact | size }}|{{ h.v | default: 'd' }}|{% if v == blank %}B{% endif %}"
		var nilSlice []string
		var nilAny []any
		var nilMap map[string]any
		groups := map[string][]any{
			"array": {[]any{}, []string{}, [0]string{}, [0]any{}, nilSlice, nilAny, gen.DropV{X: []any{}}, &gen.DropP{X: [0]int{}}, gen.NStrs{}, &[]any{}, []int{}},
			"map":   {map[string]any{}, map[string]int{}, nilMap, gen.NDict{}, gen.DropV{X: map[string]any{}}, &map[string]any{}},
		}
		for kind, vals := range groups {
			base := core.Run(e, tpl, map[string]any{"v": vals[0], "h": map[string]any{"v": vals[0]}})
			for _, v := range vals[1:] {
				alt := core.Run(e, tpl, map[string]any{"v": v, "h": map[string]any{"v": v}})
				c.Eval(2)
				c.Obs("alternative_realisations_compared", 1)
				c.Obs("family:empty-collections", 1)
				c.Distinct("emptycoll", kind, gen.Describe(v))
				if !base.OK() || !alt.Same(base) {
					c.Violate("empty-collections|"+kind+"|"+resClass(alt), "an empty "+kind+" behaves the same in every Go representation (generic, typed, fixed-size, unallocated, named, behind a pointer or a Drop)",
						map[string]any{"source": tpl, "canonical": gen.Describe(vals[0]), "canonical_result": base.Brief(), "alternative": gen.Describe(v), "alternative_result": alt.Brief()})
				}
			}
		}
	}
	// ---- (6) times: a *time.Time reached by variable or property lookup behaves as the time.Time ----------------
	tmT := []string{"{{ tm }}", "{{ tm | date: '%Y-%m-%d %H:%M:%S' }}", "{{ h.tm }}|{{ h.tm | date: '%j' }}", "{{ st.T }}|{{ st.T | date: '%b %d, %y' }}", "{% assign v = tm %}{{ v }}{{ v | date: '%s' }}",
		"{% if tm %}T{% endif %}{{ tm | date: '%Y' | plus: 1 }}", "{% for x in one %}{{ tm | date: '%H' }}{% endfor %}{% capture c %}{{ tm }}{% endcapture %}{{ c | size }}"}
	for i := 0; i < len(tmT)*c.Pick(6, 60); i++ {
		if !c.Mine(i) {
			continue
		}
		r := c.Rand(i, 6)
		src := tmT[i%len(tmT)]
		t0 := time.Date(1990+r.Intn(60), time.Month(1+r.Intn(12)), 1+r.Intn(28), r.Intn(24), r.Intn(60), r.Intn(60), 0, time.UTC)
		if !c.Begin(fmt.Sprintf("times:%s %v", src, t0)) {
			continue
		}
		type holder struct{ T any }
		mk := func(ptr bool) map[string]any {
			var v any = t0
			if ptr {
				tc := t0
				v = &tc
			}
			return map[string]any{"tm": v, "h": map[string]any{"tm": v}, "st": holder{T: v}, "one": []any{1}}
		}
		base, alt := core.Run(e, src, mk(false)), core.Run(e, src, mk(true))
		c.Eval(2)
		c.Obs("alternative_realisations_compared", 1)
		c.Obs("family:times", 1)
		c.Distinct(src, t0.String())
		if !base.OK() || !alt.Same(base) {
			c.Violate("times|"+resClass(alt)+"|"+c18Feature(src), "a *time.Time reached by variable or property lookup must behave as the time.Time it points to",
				map[string]any{"source": src, "time": t0.String(), "with_time.Time": base.Brief(), "with_*time.Time": alt.Brief()})
		}
	}
	_ = fmt.Sprint
}
