package gen

import (
	"encoding/json"
	"math"
	"strings"
	"time"

	yaml "gopkg.in/yaml.v2"
)

// UVal is one member of the boundary-value universe.
type UVal struct {
	Name  string
	Go    any    // the Go value bound as a variable
	Lit   string // literal spelling in a template ("" = none)
	Small bool   // member of the reduced universe U'
	Plain bool   // plain logical data (has a V); otherwise representation-specific
	V     V
}

// DataStruct is a struct with exported, tagged, unexported and nested fields.
type DataStruct struct {
	Name    string
	Count   int
	Tagged  string `liquid:"tagged"`
	private int
	Items   []int
	Nested  *DataStruct
	M       map[string]any
	Any     any
}

// Named types: their reflect.Kind is that of the underlying type, their dynamic type is not.
type (
	NTitle string
	NInt   int
	NFloat float64
	NBool  bool
	NStrs  []string
	NDict  map[string]any
	NKMap  map[NTitle]int
	NUint  uint16
)

// EmbedInner / EmbedOuter: Count is promoted from an embedded pointer that may be nil.
type EmbedInner struct{ Count int }
type EmbedOuter struct {
	*EmbedInner
	Name string
}

// MethodStruct has a value-receiver and a pointer-receiver method: both are properties of a *MethodStruct,
// only Upper is one of a MethodStruct value.
type MethodStruct struct{ Title string }

func (m MethodStruct) Upper() string { return strings.ToUpper(m.Title) }

// Failing is a property whose method reports an error.
func (m MethodStruct) Failing() (string, error) { return "", errMethodFailing }
func (m *MethodStruct) Slug() string { return strings.ReplaceAll(strings.ToLower(m.Title), " ", "-") }

// TaggedA and TaggedB rename fields with liquid tags, in ways that make a mix-up between the two types visible.
type TaggedA struct {
	Name  string `liquid:"label"`
	Price int    `liquid:"cost"`
	Sku   string
}
type TaggedB struct {
	Email string `liquid:"label"`
	Full  string `liquid:"cost"`
	Sku   int
}

// LongString is the "very long string" of the universe (8 KiB).
var LongString = strings.Repeat("long string é ", 630)

// Universe returns the boundary universe U. Every call builds fresh values.
func Universe() []UVal {
	fixed := time.Date(2021, 3, 4, 5, 6, 7, 0, time.UTC)
	big := make([]any, 200)
	for i := range big {
		big[i] = i
	}
	one := 1
	str := "ptr"
	var nilPtr *DataStruct
	ds := DataStruct{Name: "ds", Count: 3, Tagged: "tg", private: 7, Items: []int{1, 2}, M: map[string]any{"k": 1}}
	ds2 := ds
	ds2.Nested = &ds
	u := []UVal{
		{Name: "nil", Go: nil, Lit: "nil", Small: true, Plain: true, V: Nil},
		{Name: "true", Go: true, Lit: "true", Small: true, Plain: true, V: Bool(true)},
		{Name: "false", Go: false, Lit: "false", Plain: true, V: Bool(false)},
		{Name: "minint", Go: math.MinInt64, Lit: "-9223372036854775808", Small: true, Plain: true, V: Int(math.MinInt64)},
		{Name: "neg3", Go: -3, Lit: "-3", Small: true, Plain: true, V: Int(-3)},
		{Name: "neg1", Go: -1, Lit: "-1", Plain: true, V: Int(-1)},
		{Name: "zero", Go: 0, Lit: "0", Small: true, Plain: true, V: Int(0)},
		{Name: "one", Go: 1, Lit: "1", Plain: true, V: Int(1)},
		{Name: "two", Go: 2, Lit: "2", Small: true, Plain: true, V: Int(2)},
		{Name: "seven", Go: 7, Lit: "7", Plain: true, V: Int(7)},
		{Name: "i2p31", Go: 1 << 31, Lit: "2147483648", Plain: true, V: Int(1 << 31)},
		{Name: "i2p53", Go: 1 << 53, Lit: "9007199254740992", Plain: true, V: Int(1 << 53)},
		{Name: "maxint", Go: math.MaxInt64, Lit: "9223372036854775807", Small: true, Plain: true, V: Int(math.MaxInt64)},
		{Name: "int8", Go: int8(-128)}, {Name: "uint8", Go: uint8(255)}, {Name: "uint64max", Go: uint64(math.MaxUint64), Small: true},
		{Name: "uint0", Go: uint(0)}, {Name: "int32", Go: int32(5)}, {Name: "float32", Go: float32(0.5)},
		{Name: "fneg", Go: -1.5, Lit: "-1.5", Small: true, Plain: true, V: Float(-1.5)},
		{Name: "fnegzero", Go: math.Copysign(0, -1), Plain: true, V: Float(math.Copysign(0, -1))},
		{Name: "fquarter", Go: 0.25, Lit: "0.25", Plain: true, V: Float(0.25)},
		{Name: "fhalf", Go: 2.5, Lit: "2.5", Small: true, Plain: true, V: Float(2.5)},
		{Name: "fone", Go: 1.0, Lit: "1.0", Plain: true, V: Float(1)},
		{Name: "fhuge", Go: 1e21, Plain: true, V: Float(1e21)},
		{Name: "fhuger", Go: 1.7e308, Plain: true, V: Float(1.7e308)},
		{Name: "ftiny", Go: 5e-324, Small: true, Plain: true, V: Float(5e-324)},
		{Name: "s7", Go: "7", Lit: `"7"`, Small: true, Plain: true, V: Str("7")},
		{Name: "sneg3", Go: "-3", Lit: `"-3"`, Plain: true, V: Str("-3")},
		{Name: "s250", Go: "2.50", Lit: `"2.50"`, Plain: true, V: Str("2.50")},
		{Name: "spad7", Go: " 7", Lit: `" 7"`, Plain: true, V: Str(" 7")},
		{Name: "s1e3", Go: "1e3", Lit: `"1e3"`, Plain: true, V: Str("1e3")},
		{Name: "sempty", Go: "", Lit: `""`, Small: true, Plain: true, V: Str("")},
		{Name: "sa", Go: "a", Lit: `"a"`, Plain: true, V: Str("a")},
		{Name: "sabc", Go: "abc", Lit: `'abc'`, Small: true, Plain: true, V: Str("abc")},
		{Name: "swords", Go: "a b c", Lit: `"a b c"`, Plain: true, V: Str("a b c")},
		{Name: "spad", Go: " pad ", Lit: `" pad "`, Plain: true, V: Str(" pad ")},
		{Name: "suni", Go: "é日本𝄞x", Lit: `"é日本𝄞x"`, Small: true, Plain: true, V: Str("é日本𝄞x")},
		{Name: "shtml", Go: "<a&'\">", Plain: true, V: Str("<a&'\">")},
		{Name: "spct", Go: "%zz%", Lit: `"%zz%"`, Plain: true, V: Str("%zz%")},
		{Name: "snl", Go: "l1\nl2\n", Plain: true, V: Str("l1\nl2\n")},
		{Name: "sbad", Go: "\xff\xfe", Plain: true, V: Str("\xff\xfe")},
		{Name: "slong", Go: LongString, Small: true, Plain: true, V: Str(LongString)},
		{Name: "bytes", Go: []byte("by\x00tes")},
		{Name: "aempty", Go: []any{}, Small: true, Plain: true, V: Arr()},
		{Name: "anil", Go: []any{nil}, Small: true, Plain: true, V: Arr(Nil)},
		{Name: "a1", Go: []any{1}, Plain: true, V: Ints(1)},
		{Name: "a312", Go: []any{3, 1, 2}, Small: true, Plain: true, V: Ints(3, 1, 2)},
		{Name: "a11", Go: []any{1, 1}, Plain: true, V: Ints(1, 1)},
		{Name: "astr", Go: []any{"b", "A", "c"}, Plain: true, V: Strs("b", "A", "c")},
		{Name: "amixed", Go: []any{1, "a", nil, 2.5, true}, Small: true, Plain: true, V: Arr(Int(1), Str("a"), Nil, Float(2.5), Bool(true))},
		{Name: "anested", Go: []any{[]any{1}, []any{2}}, Plain: true, V: Arr(Ints(1), Ints(2))},
		{Name: "amaps", Go: []any{map[string]any{"k": 2}, map[string]any{"j": 1}, nil, map[string]any{"k": nil}, 3}, Small: true, Plain: true,
			V: Arr(Map(KV{"k", Int(2)}), Map(KV{"j", Int(1)}), Nil, Map(KV{"k", Nil}), Int(3))},
		{Name: "abig", Go: big},
		{Name: "tints", Go: []int{3, 1, 2}}, {Name: "tstrs", Go: []string{"b", "a"}, Small: true}, {Name: "tarr", Go: [3]int{1, 2, 3}},
		{Name: "tfloats", Go: []float64{1.5, -2}}, {Name: "tnil", Go: []int(nil)}, {Name: "tbytes2", Go: [][]byte{[]byte("x")}},
		{Name: "mempty", Go: map[string]any{}, Small: true, Plain: true, V: Map()},
		{Name: "ma1", Go: map[string]any{"a": 1}, Plain: true, V: Map(KV{"a", Int(1)})},
		{Name: "msize", Go: map[string]any{"size": 9, "first": 8, "last": nil}, Small: true, Plain: true, V: Map(KV{"size", Int(9)}, KV{"first", Int(8)}, KV{"last", Nil})},
		{Name: "mnilv", Go: map[string]any{"k": nil}, Plain: true, V: Map(KV{"k", Nil})},
		{Name: "mtyped", Go: map[string]int{"a": 1, "b": 2}},
		{Name: "mintkey", Go: map[int]string{1: "one", 2: "two"}, Small: true},
		{Name: "manykey", Go: map[any]any{1: "one", "k": 2, true: 3, 2.5: nil}, Small: true},
		{Name: "mnil", Go: map[string]any(nil)},
		{Name: "mapslice", Go: yaml.MapSlice{{Key: "a", Value: 1}, {Key: 2, Value: "two"}, {Key: nil, Value: nil}}, Small: true},
		{Name: "time", Go: fixed, Small: true},
		{Name: "timeptr", Go: &fixed}, {Name: "timefar", Go: time.Date(10000, 1, 2, 3, 4, 5, 0, time.UTC)}, {Name: "timezero", Go: time.Time{}},
		{Name: "struct", Go: ds2, Small: true},
		{Name: "anonstructA", Go: struct {
			Name string
			A    int
		}{"anonA", 1}, Small: true},
		{Name: "anonstructB", Go: struct{ B string }{"anonB"}, Small: true},
		{Name: "localT1", Go: localT1()}, {Name: "localT2", Go: localT2()},
		{Name: "arrany12f", Go: [2]any{1, 2.0}, Plain: true, V: Arr(Int(1), Float(2))},
		{Name: "arranyf12", Go: [2]any{1.0, 2}, Plain: true, V: Arr(Float(1), Int(2))},
		{Name: "arranyslice", Go: [1]any{[]int{1}}, Plain: true, V: Arr(Ints(1))},
		{Name: "i65", Go: 65, Lit: "65", Plain: true, V: Int(65)},
		{Name: "mctl", Go: map[string]any{"A": 1, "\x01": 2, "\x07": 3, "2": 4}, Small: true, Plain: true, V: Map(KV{"A", Int(1)}, KV{"\x01", Int(2)}, KV{"\x07", Int(3)}, KV{"2", Int(4)})},
		{Name: "msizenil", Go: map[string]any{"size": nil, "a": 1}, Plain: true, V: Map(KV{"size", Nil}, KV{"a", Int(1)})},
		{Name: "structptr", Go: &ds2, Small: true},
		{Name: "nilstructptr", Go: nilPtr, Small: true},
		{Name: "intptr", Go: &one}, {Name: "strptr", Go: &str},
		{Name: "ptrslice", Go: []*int{&one, nil}, Small: true}, {Name: "anynilptr", Go: []any{(*int)(nil), 1, (*DataStruct)(nil)}},
		{Name: "structptrs", Go: []*DataStruct{nil, &ds}}, {Name: "mapnilptr", Go: map[string]*int{"p": nil, "q": &one}},
		{Name: "ptrptr", Go: func() **int { p := &one; return &p }()}, {Name: "nilslice", Go: []any(nil)},
		{Name: "dropv", Go: DropV{[]any{1, "x"}}, Small: true},
		{Name: "dropp", Go: &DropP{map[string]any{"k": DropV{7}}}},
		{Name: "dropnil", Go: DropV{nil}},
		{Name: "dropdrop", Go: DropV{&DropP{"inner"}}},
		{Name: "adrops", Go: []any{DropV{2}, DropV{1}, &DropP{"s"}, DropV{nil}}, Small: true},
		{Name: "ntitle", Go: NTitle("héllo wörld"), Small: true}, {Name: "jsonnum", Go: json.Number("12")}, {Name: "jsonfrac", Go: json.Number("2.5"), Small: true}, {Name: "jsonbig", Go: json.Number("123456789012345678901234567890")}, {Name: "jsonhuge", Go: json.Number("1e999")}, {Name: "jsonbad", Go: json.Number("12abc")}, {Name: "nint", Go: NInt(3)}, {Name: "nfloat", Go: NFloat(2.5)},
		{Name: "nbool", Go: NBool(true)}, {Name: "nstrs", Go: NStrs{"b", "a"}}, {Name: "ndict", Go: NDict{"k": 1, "size": 2}}, {Name: "nkmap", Go: NKMap{"k": 1, "a": 2}, Small: true},
		{Name: "nkmaps", Go: []NKMap{{"k": 2}, {"k": 1}, {}}}, {Name: "anynkmaps", Go: []any{NKMap{"k": 2}, map[string]any{"k": 1}, NDict{"k": 0}}}, {Name: "ntitles", Go: []NTitle{"b", "a"}},
		{Name: "embednil", Go: EmbedOuter{Name: "outer"}, Small: true}, {Name: "embednilptr", Go: &EmbedOuter{}}, {Name: "embedset", Go: EmbedOuter{EmbedInner: &EmbedInner{Count: 4}}},
		{Name: "mapslicekeys", Go: yaml.MapSlice{{Key: []int{3, 1, 2}, Value: "slicekey"}, {Key: map[string]any{"a": 1}, Value: 2}, {Key: "a", Value: 3}, {Key: []string{"b", "a"}, Value: 4}}, Small: true},
		{Name: "uintptr", Go: uintptr(7)},
		{Name: "msub", Go: map[string]any{"id": 1}}, {Name: "msuper", Go: map[string]any{"id": 1, "tag": "x"}}, {Name: "msuper2", Go: map[string]any{"id": 1, "tag": "x"}},
		{Name: "mapslice1", Go: yaml.MapSlice{{Key: "a", Value: 1}}}, {Name: "mapslice1w", Go: yaml.MapSlice{{Key: "a", Value: int64(1)}}}, {Name: "mapsliceempty", Go: yaml.MapSlice{}, Small: true},
		{Name: "mapitems", Go: []yaml.MapItem{{Key: "a", Value: 1}}}, {Name: "mapslicedrop", Go: yaml.MapSlice{{Key: "a", Value: DropV{1}}}},
		{Name: "methodval", Go: MethodStruct{Title: "Hello World"}}, {Name: "methodptr", Go: &MethodStruct{Title: "Hello World"}}, {Name: "taggeda", Go: TaggedA{"lamp", 5, "SKU-1"}}, {Name: "taggedb", Go: &TaggedB{"ada@example.org", "Ada", 7}},
		{Name: "mu8key", Go: map[uint8]string{1: "a", 200: "b", 255: "c"}, Small: true}, {Name: "mu64key", Go: map[uint64]string{1: "one", 1 << 63: "mid", math.MaxUint64: "max", 5: "five"}},
		{Name: "manyukey", Go: map[any]any{uint(3): "u3", uint8(2): "u2", -1: "m1", uint64(math.MaxUint64): "max", 1.5: "f"}}, {Name: "mnukey", Go: map[NUint]int{7: 1, 3: 2}},
		{Name: "mi8key", Go: map[int8]int{-128: 1, 127: 2, 0: 3}}, {Name: "mboolkey", Go: map[bool]string{true: "t", false: "f"}}, {Name: "mfloatkey", Go: map[float64]string{1.5: "a", -0.5: "b", 1e300: "c"}},
		{Name: "u64mid", Go: uint64(1) << 63}, {Name: "umaxslice", Go: []uint64{math.MaxUint64, 0, 1 << 63}}, {Name: "mixedsign", Go: []any{uint8(200), -7, uint64(math.MaxUint64), -1, uint(3), 2}, Small: true},
		// a NaN key can be listed but never looked up; two of them have no order
		{Name: "mnankey", Go: map[float64]any{math.NaN(): 1, 2: []any{1}}}, {Name: "mnankey1", Go: map[float64]string{math.NaN(): "a"}, Small: true},
		{Name: "mnankeyany", Go: map[any]any{math.NaN(): 1, math.Inf(1): 2, "a": 3, float32(math.NaN()): []any{"x"}}}, {Name: "mnankeyin", Go: []any{map[float64]any{math.NaN(): map[string]any{"k": 1}}}},
		// two ordered maps that differ in their keys only
		{Name: "mapslicekw", Go: yaml.MapSlice{{Key: "width", Value: 10}, {Key: "depth", Value: "d"}}}, {Name: "mapslicekh", Go: yaml.MapSlice{{Key: "height", Value: 10}, {Key: "depth", Value: "d"}}},
		// records of every kind of map side by side (sort: key and map: key look each of them up), and nil pointers whose type is a Drop
		{Name: "recskinds", Go: []any{map[string]any{"k": 2}, map[int]string{1: "a"}, map[bool]int{true: 1}, map[uint8]string{2: "b"}, map[any]any{"k": 1, 3: "x"}, map[float64]any{1.5: 1}, map[NTitle]int{"k": 0}, nil, 5}},
		{Name: "nildropptr", Go: (*DropV)(nil)}, {Name: "nildropsin", Go: []any{(*DropV)(nil), 1, (*DropP)(nil)}}, {Name: "mnildrop", Go: map[string]any{"k": (*DropV)(nil)}},
		{Name: "fn", Go: func() any { return 1 }},
		{Name: "chan", Go: make(chan int)},
		{Name: "complex", Go: complex(1, 2)},
		{Name: "err", Go: errString("an error value")},
	}
	return u
}

type errString string

func (e errString) Error() string { return string(e) }

// PlainUniverse returns only plain-data members (those the C01 statement lists);
// funcs, channels and complex numbers are not "plain data" and are excluded.
func PlainDataUniverse() []UVal {
	var out []UVal
	for _, u := range Universe() {
		switch u.Name {
		case "fn", "chan", "complex", "err":
			continue
		}
		out = append(out, u)
	}
	return out
}

// ComparableUniverse is the plain-data universe without the values that hold a NaN: NaN does not equal itself, so
// the coherence laws of the comparison operators (reflexivity above all) are not stated for them.
func ComparableUniverse() []UVal {
	var out []UVal
	for _, u := range PlainDataUniverse() {
		if !strings.HasPrefix(u.Name, "mnankey") {
			out = append(out, u)
		}
	}
	return out
}

// SmallUniverse is U'.
func SmallUniverse() []UVal {
	var out []UVal
	for _, u := range PlainDataUniverse() {
		if u.Small {
			out = append(out, u)
		}
	}
	return out
}

// Two function-local struct types with the same name: their reflect names and
// package paths coincide, which is exactly what a careless type-keyed cache confuses.
func localT1() any {
	type T struct {
		Name string
		A    int
	}
	return T{"t1", 1}
}

func localT2() any {
	type T struct{ B string }
	return T{"t2"}
}

var errMethodFailing = errString("MethodStruct.Failing: no value")
