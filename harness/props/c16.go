package props

import (
	"math"
	"encoding/json"
	"fmt"
	"html"
	"strings"
	"unicode"
	"unicode/utf8"

	"github.com/osteele/liquid"

	"verif/harness/core"
	"verif/harness/gen"
)

func init() {
	core.Register(&core.Prop{
		ID:    "C16",
		Level: "exploration",
		Rule: "strings of length 0..4 over the 11-symbol alphabet {a, B, space, newline, e-acute (2-byte), U+1D11E (4-byte), <, &, %, +, '} (ALL 16105 strings up to length 4 in quick, ALL 177156 up to length 5 in thorough) x every string filter named by the property x integer arguments -3..12 x string arguments from a 12-element set (PRNG-sampled argument tuples per string), plus PRNG strings up to 200 characters; each output is checked against the law the statement gives for that filter, computed on characters. Non-trivial = the receiver is non-empty; distinct = distinct (filter, receiver, arguments).",
		Exhaustive: func(tier string) bool { return true },
		Assumptions: []string{
			"upcase/downcase/capitalize: ASCII letters must map exactly; any other character may stay or take its Unicode case mapping; capitalize may leave or lower-case the rest",
			"empty search patterns, negative lengths/counts, truncate with n shorter than the ellipsis: only 'no panic, valid UTF-8' is asserted",
			"strip_html, newline_to_br, strip_newlines, date, default, json, inspect, type are not in the statement",
		},
		Run: runC16,
	})
}

var c16Alpha = []string{"a", "B", " ", "\n", "é", "𝄞", "<", "&", "%", "+", "'"}
var c16StrArgs = []string{"", "...", "é", "a", " ", ", ", "B", "&", "𝄞x", "a ", "%", "--"}

type c16 struct {
	c     *core.Ctx
	e     *liquid.Engine
	t     map[string]*liquid.Template
	calls int
}

func (x *c16) tpl(src string) *liquid.Template {
	if t := x.t[src]; t != nil {
		return t
	}
	t, pr := core.ParsePlain(x.e, src)
	if !pr.OK() {
		x.c.Violate("parse|"+src, "a string filter template does not parse", map[string]any{"source": src, "observed": pr.Brief()})
		return nil
	}
	x.t[src] = t
	return t
}

// apply renders {{ s | filter: args }} with everything bound as variables.
func (x *c16) apply(filter string, s any, args ...any) core.Res {
	src := "{{ s | " + filter
	b := map[string]any{"s": s}
	for i, a := range args {
		if i == 0 {
			src += ": "
		} else {
			src += ", "
		}
		n := fmt.Sprintf("a%d", i)
		src += n
		b[n] = a
	}
	src += " }}"
	t := x.tpl(src)
	if t == nil {
		return core.Res{Shape: "template did not parse"}
	}
	x.c.Eval(1)
	// the filters are reached through every way of rendering a parsed template in turn
	switch x.calls++; x.calls % 3 {
	case 1:
		return core.RenderString(t, b)
	case 2:
		return core.FRender(t, nil, b)
	}
	return core.Render(t, b)
}

// rawBytes: url_decode yields whatever bytes its input spells, valid UTF-8 or not, and nothing on the way out re-encodes them.
func (x *c16) rawBytes() {
	for _, cs := range [][2]string{{"%ff", "\xff"}, {"%c3", "\xc3"}, {"%f0%9f%98", "\xf0\x9f\x98"}, {"a%80b", "a\x80b"}, {"%c3%a9%ff", "é\xff"}, {"%ED%A0%80", "\xed\xa0\x80"}, {"%fe%ff", "\xfe\xff"}} {
		for k := 0; k < 3; k++ {
			x.expect("url_decode", "its output is whatever bytes its input spells", cs[0], cs[1])
		}
		x.c.Distinct("rawbytes", cs[0])
	}
}

func (x *c16) bad(filter, law string, s any, args []any, res core.Res, want string) {
	x.c.Violate(filter+"|"+law, "string filter "+filter+" broke its law: "+law,
		map[string]any{"filter": filter, "receiver": fmt.Sprintf("%q", s), "args": fmt.Sprintf("%q", args), "expected": want, "observed": res.Brief()})
}

// expect: the filter must succeed with exactly want.
func (x *c16) expect(filter, law string, s any, want string, args ...any) {
	res := x.apply(filter, s, args...)
	x.c.Obs("laws_checked", 1)
	if !res.OK() || res.Out != want {
		x.bad(filter, law, s, args, res, fmt.Sprintf("%q", want))
	}
}

func runes(s string) []rune { return []rune(s) }

func isWS(r rune) bool { return unicode.IsSpace(r) }

func (x *c16) stringLaws(s string, r *core.Rand) {
	c := x.c
	rs := runes(s)
	n := len(rs)
	sa := c16StrArgs[r.Intn(len(c16StrArgs))]
	sb := c16StrArgs[r.Intn(len(c16StrArgs))]
	ia := r.Range(-3, 12)
	ib := r.Range(-3, 12)

	x.expect("append", "concatenation", s, s+sa, sa)
	x.expect("prepend", "concatenation", s, sa+s, sa)
	x.expect("size", "counts characters", s, fmt.Sprint(n))
	x.expect("strip", "removes surrounding whitespace", s, strings.TrimFunc(s, isWS))
	x.expect("lstrip", "removes leading whitespace", s, strings.TrimLeftFunc(s, isWS))
	x.expect("rstrip", "removes trailing whitespace", s, strings.TrimRightFunc(s, isWS))

	// case
	for _, f := range []string{"upcase", "downcase", "capitalize"} {
		res := x.apply(f, s)
		c.Obs("laws_checked", 1)
		ok := res.OK()
		var out []rune
		if ok {
			out = runes(res.Out)
			ok = len(out) == n && utf8.ValidString(res.Out)
		}
		for i := 0; ok && i < n; i++ {
			in, o := rs[i], out[i]
			switch f {
			case "upcase":
				if in < 128 {
					ok = o == unicode.ToUpper(in)
				} else {
					ok = o == in || o == unicode.ToUpper(in)
				}
			case "downcase":
				if in < 128 {
					ok = o == unicode.ToLower(in)
				} else {
					ok = o == in || o == unicode.ToLower(in)
				}
			case "capitalize":
				if i == 0 {
					ok = o == unicode.ToUpper(in) || in >= 128 && o == in
				} else {
					ok = o == in || o == unicode.ToLower(in)
				}
			}
		}
		if !ok {
			x.bad(f, "changes case character by character", s, nil, res, "same characters with the case changed")
		}
	}

	// substitution (non-empty pattern)
	if sa != "" {
		x.expect("replace", "replaces every occurrence", s, strings.ReplaceAll(s, sa, sb), sa, sb)
		x.expect("replace_first", "replaces the first occurrence", s, strings.Replace(s, sa, sb, 1), sa, sb)
		x.expect("remove", "removes every occurrence", s, strings.ReplaceAll(s, sa, ""), sa)
		x.expect("remove_first", "removes the first occurrence", s, strings.Replace(s, sa, "", 1), sa)
	} else {
		for _, f := range []string{"replace", "remove"} {
			res := x.apply(f, s, sa, sb)
			if res.Panic != "" || res.OK() && utf8.ValidString(s) && !utf8.ValidString(res.Out) {
				x.bad(f, "empty pattern: no panic, valid UTF-8", s, []any{sa, sb}, res, "anything valid")
			}
		}
	}

	// slice
	{
		want := ""
		i := ia
		if i < 0 {
			i += n
		}
		if i >= 0 && i < n {
			want = string(rs[i])
		}
		x.expect("slice", "slice: i is the i-th character (negative from the end), out of range gives the empty string", s, want, ia)
		if ib >= 0 {
			want = ""
			if i >= 0 && i < n {
				end := i + ib
				if end > n {
					end = n
				}
				want = string(rs[i:end])
			}
			x.expect("slice", "slice: i, n is up to n characters from i", s, want, ia, ib)
		} else {
			res := x.apply("slice", s, ia, ib)
			if res.Panic != "" {
				x.bad("slice", "negative length: no panic", s, []any{ia, ib}, res, "anything")
			}
		}
	}

	// truncate
	{
		el := sa
		elN := len(runes(el))
		res := x.apply("truncate", s, ia, el)
		c.Obs("laws_checked", 1)
		switch {
		case res.Panic != "":
			x.bad("truncate", "no panic", s, []any{ia, el}, res, "anything")
		case n <= ia:
			if !res.OK() || res.Out != s {
				x.bad("truncate", "never lengthens (or changes) a string that already fits", s, []any{ia, el}, res, fmt.Sprintf("%q", s))
			}
		case ia >= elN && ia >= 0:
			want := string(rs[:ia-elN]) + el
			if !res.OK() || res.Out != want {
				x.bad("truncate", "keeps n minus the ellipsis length characters, then the ellipsis (counted in characters)", s, []any{ia, el}, res, fmt.Sprintf("%q", want))
			}
		default:
			if res.OK() && utf8.ValidString(s) && !utf8.ValidString(res.Out) {
				x.bad("truncate", "valid UTF-8 in gives valid UTF-8 out", s, []any{ia, el}, res, "valid UTF-8")
			}
		}
	}

	// truncatewords
	if ia >= 1 {
		words := strings.FieldsFunc(s, isWS)
		res := x.apply("truncatewords", s, ia, sa)
		c.Obs("laws_checked", 1)
		if len(words) <= ia {
			if !res.OK() || res.Out != s {
				x.bad("truncatewords", "never lengthens (or changes) a string that already fits", s, []any{ia, sa}, res, fmt.Sprintf("%q", s))
			}
		} else if !res.OK() || !strings.HasSuffix(res.Out, sa) ||
			strings.Join(strings.FieldsFunc(strings.TrimSuffix(res.Out, sa), isWS), "\x00") != strings.Join(words[:ia], "\x00") {
			x.bad("truncatewords", "keeps the first n words, then the ellipsis", s, []any{ia, sa}, res, fmt.Sprintf("first %d words of %q + %q", ia, words, sa))
		}
	} else {
		res := x.apply("truncatewords", s, ia, sa)
		if res.Panic != "" {
			x.bad("truncatewords", "no panic", s, []any{ia, sa}, res, "anything")
		}
	}

	// escape / escape_once
	{
		res := x.apply("escape", s)
		c.Obs("laws_checked", 1)
		ok := res.OK() && !strings.ContainsAny(res.Out, "<>'\"") && html.UnescapeString(res.Out) == s
		if ok {
			for i := 0; i < len(res.Out); i++ {
				if res.Out[i] == '&' {
					j := strings.IndexByte(res.Out[i:], ';')
					if j < 2 || j > 10 {
						ok = false
					}
				}
			}
		}
		if !ok {
			x.bad("escape", "leaves no raw < > & ' \" and unescapes back to the input", s, nil, res, "escaped text")
		}
		if res.OK() {
			x.expect("escape_once", "existing entities survive (escape_once of escaped text is that text)", res.Out, res.Out)
		}
		r1 := x.apply("escape_once", s)
		if r1.OK() {
			x.expect("escape_once", "is idempotent", r1.Out, r1.Out)
			if strings.ContainsAny(r1.Out, "<>'\"") {
				x.bad("escape_once", "leaves no raw < > ' \"", s, nil, r1, "escaped text")
			}
		} else {
			x.bad("escape_once", "must not fail", s, nil, r1, "escaped text")
		}
	}

	// url_encode / url_decode
	{
		enc := x.apply("url_encode", s)
		c.Obs("laws_checked", 1)
		if !enc.OK() {
			x.bad("url_encode", "must not fail", s, nil, enc, "encoded text")
		} else {
			x.expect("url_decode", "inverts url_encode", enc.Out, s)
			for i := 0; i < len(enc.Out); i++ {
				if ch := enc.Out[i]; ch >= 0x80 || ch == ' ' || ch == '&' || ch == '<' || ch == '\'' || ch == '\n' {
					x.bad("url_encode", "output must not contain raw reserved characters", s, nil, enc, "percent-encoded text")
					break
				}
			}
		}
	}
}

func (x *c16) splitJoin(r *core.Rand) {
	seps := []string{",", " ", "--", "é", "&", "a"}
	sep := seps[r.Intn(len(seps))]
	k := r.Range(0, 5) // zero pieces join to the empty string, which splits into zero pieces again
	pieces := make([]string, k)
	for i := range pieces {
		for {
			p := gen.NthString(c16Alpha, 1+r.Intn(1000))
			if sep == " " {
				p = strings.Map(func(c rune) rune {
					if isWS(c) {
						return 'w'
					}
					return c
				}, p)
			}
			if p != "" && !strings.Contains(p, sep) {
				pieces[i] = p
				break
			}
		}
	}
	joined := strings.Join(pieces, sep)
	// a piece boundary may create a new separator occurrence (e.g. "-" + "--" + "x"): skip those
	if k > 0 && len(strings.Split(joined, sep)) != k {
		x.c.Skip("joined pieces contain an accidental separator")
		return
	}
	src := "{{ s | split: sep | join: sep }}|{{ s | split: sep | size }}|{{ s | split: sep | first }}|{{ s | split: sep | last }}"
	t := x.tpl(src)
	if t == nil {
		return
	}
	res := core.Render(t, map[string]any{"s": joined, "sep": sep})
	x.c.Eval(1)
	x.c.Obs("laws_checked", 1)
	x.c.Distinct("splitjoin", joined, sep)
	want := "|0||"
	if k > 0 {
		want = fmt.Sprintf("%s|%d|%s|%s", joined, k, pieces[0], pieces[k-1])
	}
	if !res.OK() || res.Out != want {
		x.c.Violate("split|inverse-of-join", "split and join must be inverse on separator-free pieces",
			map[string]any{"pieces": fmt.Sprintf("%q", pieces), "separator": sep, "expected": want, "observed": res.Brief()})
	}
}

// namedStringReceivers: a string is a string whatever its Go type is called (type Title string, json.Number):
// every filter must treat it exactly as the plain string with the same characters, as receiver and as argument.
func (x *c16) namedStringReceivers() {
	type fa struct {
		f    string
		args []any
	}
	filters := []fa{{"size", nil}, {"upcase", nil}, {"downcase", nil}, {"capitalize", nil}, {"strip", nil}, {"lstrip", nil}, {"rstrip", nil}, {"append", []any{"x"}}, {"prepend", []any{"x"}},
		{"slice", []any{1, 2}}, {"truncate", []any{3}}, {"truncatewords", []any{1}}, {"replace", []any{"l", "L"}}, {"replace_first", []any{"l", "L"}}, {"remove", []any{"l"}}, {"remove_first", []any{"l"}},
		{"split", []any{" "}}, {"escape", nil}, {"escape_once", nil}, {"url_encode", nil}, {"url_decode", nil}, {"strip_html", nil}, {"strip_newlines", nil}, {"newline_to_br", nil}}
	for _, str := range []string{"héllo wörld", "", " a b ", "<a&b>", "12", "line\nline", "x%20y"} {
		for _, f := range filters {
			plain := x.apply(f.f, str, f.args...)
			for _, named := range []any{gen.NTitle(str), json.Number(str)} {
				got := x.apply(f.f, named, f.args...)
				x.c.Obs("laws_checked", 1)
				x.c.Obs("named_string_receivers", 1)
				if !got.Same(plain) {
					x.bad(f.f, "a value of a named string type acts as the string it holds", named, f.args, got, plain.Brief())
				}
			}
		}
		// as arguments
		for _, f := range []fa{{"append", nil}, {"prepend", nil}, {"remove", nil}, {"split", nil}} {
			plain := x.apply(f.f, "a "+str+" b", str)
			got := x.apply(f.f, "a "+str+" b", gen.NTitle(str))
			x.c.Obs("laws_checked", 1)
			if !got.Same(plain) {
				x.bad(f.f, "an argument of a named string type acts as the string it holds", "a "+str+" b", []any{gen.NTitle(str)}, got, plain.Brief())
			}
		}
	}
}

// literalBackslashes: a string written as a literal in the template is the same string as one that arrives through a
// binding - backslashes included (Liquid has no escape sequences) - for every filter, as receiver and as argument.
func (x *c16) literalBackslashes() {
	for _, str := range []string{`C:\temp\new`, `a\nb`, `tab\there`, `\`, `\\`, `quote\"x`, `100%\d`, `\u00e9\x41`} {
		q := "'"
		if strings.Contains(str, "'") {
			q = "\""
		}
		if strings.Contains(str, q) {
			continue
		}
		lit := q + str + q
		for _, f := range []string{"size", "upcase", "capitalize", "strip", "url_encode", "escape", "strip_newlines", "newline_to_br", "downcase | size"} {
			viaBinding := core.Run(x.e, "{{ s | "+f+" }}", map[string]any{"s": str})
			viaLiteral := core.Run(x.e, "{{ "+lit+" | "+f+" }}", nil)
			x.c.Eval(2)
			x.c.Obs("laws_checked", 1)
			x.c.Obs("literal_backslash_cases", 1)
			if !viaBinding.OK() || !viaLiteral.Same(viaBinding) {
				x.bad(f, "a string literal is exactly the characters between its quotes: the filter must see the same string as through a binding", str, nil, viaLiteral, viaBinding.Brief())
			}
		}
		for _, f := range []string{"append", "prepend", "remove", "split", "replace"} {
			arg2 := ""
			if f == "replace" {
				arg2 = ", '/'"
			}
			viaBinding := core.Run(x.e, "{{ s | "+f+": a"+arg2+" }}", map[string]any{"s": "x" + str + "y", "a": str})
			viaLiteral := core.Run(x.e, "{{ s | "+f+": "+lit+arg2+" }}", map[string]any{"s": "x" + str + "y"})
			x.c.Eval(2)
			x.c.Obs("laws_checked", 1)
			if !viaBinding.OK() || !viaLiteral.Same(viaBinding) {
				x.bad(f, "a string literal used as argument is exactly the characters between its quotes", "x"+str+"y", []any{str}, viaLiteral, viaBinding.Brief())
			}
		}
	}
}

func (x *c16) nonStringReceivers() {
	cases := []struct {
		v    any
		text string
	}{{12, "12"}, {-3, "-3"}, {2.5, "2.5"}, {true, "true"}, {false, "false"}, {nil, ""}, {int8(7), "7"}, {uint16(9), "9"}, {float32(0.5), "0.5"}, {3.0, "3"}}
	for _, cs := range cases {
		x.expect("append", "numbers and booleans act as the text they print as (nil as the empty string)", cs.v, cs.text+"!", "!")
		x.expect("prepend", "numbers and booleans act as the text they print as (nil as the empty string)", cs.v, "!"+cs.text, "!")
		x.expect("upcase", "numbers and booleans act as the text they print as (nil as the empty string)", cs.v, strings.ToUpper(cs.text))
		x.expect("replace", "numbers and booleans act as the text they print as (nil as the empty string)", cs.v, strings.ReplaceAll(cs.text, "2", "x"), "2", "x")
		x.expect("slice", "numbers and booleans act as the text they print as (nil as the empty string)", cs.v, firstRune(cs.text), 0)
		x.expect("strip", "numbers and booleans act as the text they print as (nil as the empty string)", cs.v, cs.text)
		x.expect("truncate", "numbers and booleans act as the text they print as (nil as the empty string)", cs.v, cs.text, 20)
		x.expect("escape", "numbers and booleans act as the text they print as (nil as the empty string)", cs.v, cs.text)
		x.expect("split", "numbers and booleans act as the text they print as (nil as the empty string)", cs.v, cs.text, "|")
	}
}

// numberReceivers: a number given as receiver acts as the text it prints as, whatever its Go width.
func (x *c16) numberReceivers() {
	vals := []any{float32(0.1), float32(2.7), float32(-0.3), float32(1e-3), 0.1, 2.7, 1e21, 1e-7, float32(16777217), int8(-7), uint64(1 << 63), int64(-1 << 62), uint8(200), 3.0, float32(4), -0.5, true, false, 1234567.0, float32(2e6), math.Copysign(0, -1), 12, gen.NInt(-40), gen.NBool(true), gen.NFloat(2.5)}
	for _, v := range vals {
		printed := core.Run(x.e, "{{ v }}", map[string]any{"v": v})
		x.c.Eval(1)
		if !printed.OK() {
			continue
		}
		p := printed.Out
		x.expect("append", "a number receiver acts as the text it prints as", v, p+"!", "!")
		x.expect("prepend", "a number receiver acts as the text it prints as", v, "!"+p, "!")
		x.expect("size", "a number receiver acts as the text it prints as", v, fmt.Sprint(len([]rune(p))))
		x.expect("upcase", "a number receiver acts as the text it prints as", v, strings.ToUpper(p))
		x.expect("replace", "a number receiver acts as the text it prints as", v, strings.ReplaceAll(p, "0", "o"), "0", "o")
		x.expect("slice", "a number receiver acts as the text it prints as", v, firstRune(p), 0)
		x.expect("truncate", "a number receiver acts as the text it prints as", v, p, 40, "")
		x.expect("split", "a number receiver acts as the text it prints as", v, p, "|")
		x.c.Distinct("numrecv", fmt.Sprintf("%T %v", v, v))
	}
}

func firstRune(s string) string {
	for _, r := range s {
		return string(r)
	}
	return ""
}

func runC16(c *core.Ctx) {
	x := &c16{c: c, e: liquid.NewEngine(), t: map[string]*liquid.Template{}}
	if c.Shard == 0 && c.Begin("non-string receivers") {
		x.nonStringReceivers()
		x.namedStringReceivers()
		x.literalBackslashes()
		x.numberReceivers()
		x.rawBytes()
	}
	total := gen.CountStrings(len(c16Alpha), c.Pick(4, 5))
	reps := c.Pick(2, 4)
	for i := 0; i < total; i++ {
		if !c.Mine(i) {
			continue
		}
		r := c.Rand(i)
		s := gen.NthString(c16Alpha, i)
		if !c.Begin(fmt.Sprintf("string:%q", s)) {
			continue
		}
		for k := 0; k < reps; k++ {
			x.stringLaws(s, r)
		}
		if s != "" {
			c.Distinct("s", s)
		}
		if i%3001 == 7 {
			c.Sample(map[string]any{"receiver": s, "laws": "append prepend size strip lstrip rstrip upcase downcase capitalize replace replace_first remove remove_first slice truncate truncatewords escape escape_once url_encode url_decode"})
		}
	}
	n := c.Pick(30000, 1000000)
	for i := 0; i < n; i++ {
		if !c.Mine(i) {
			continue
		}
		r := c.Rand(i, 16)
		var s string
		if r.Bool() {
			s = gen.RandUTF8(r, r.Intn(200))
		} else {
			for k := r.Range(5, 60); k > 0; k-- {
				s += c16Alpha[r.Intn(len(c16Alpha))]
			}
		}
		if !c.Begin(fmt.Sprintf("random-string:%q", s)) {
			continue
		}
		x.stringLaws(s, r)
		x.splitJoin(r)
		c.Distinct("rs", s)
	}
}
