package props

import (
	"fmt"
	"reflect"
	"sort"
	"strconv"
	"strings"

	"github.com/osteele/liquid"
	yaml "gopkg.in/yaml.v2"

	"verif/harness/core"
	"verif/harness/gen"
	"verif/harness/ref"
)

func init() {
	core.Register(&core.Prop{
		ID:    "C11",
		Level: "exploration",
		Rule: "EXHAUSTIVE grid: collection length 0..7 x offset {absent,0..8} x limit {absent,0..8} x reversed x {for, tablerow cols absent/1..4} (quick: full for length<=5, a PRNG 1/2 sample for lengths 6..7), each over 8 collection representations ([]any, []int, [N]int, range literal, range with variable endpoints, yaml.MapSlice, Drop of array, and maps as a multiset), break/continue at every iteration index (bare and inside if, and inside application-defined blocks registered with RegisterBlock); all range endpoint pairs in -3..6; cycle round-robin per loop and group for loop lengths 0..7; negative offset/limit only against invariants; offset/limit/cols/range endpoints as variables of every integer width, named integer types and results of numeric filters against the same loop written with literals; PRNG nestings (depth<=3) of loops with conditionals, cycles and assigns against the reference model. The rendered per-iteration trace [item|index|index0|rindex|rindex0|length|first|last] is compared with the model. Non-trivial = at least one item selected or the else branch rendered; distinct = distinct (template, bindings).",
		Exhaustive: func(tier string) bool { return tier == "thorough" },
		Assumptions: []string{
			"tablerow output is compared after stripping the attributes of <tr> and <td> (only the row/cell structure is stated)",
			"map iteration order is not compared (items as a multiset, forloop fields in order)",
			"negative offset/limit, cols <= 0, loops over scalars: not asserted; a tablerow left by break closes its cell and its row (every item in a td, every row in a tr)",
		},
		Run: runC11,
	})
}

func traceBody(item gen.Expr) []gen.Node {
	fl := func(n string) gen.Node { return gen.Out{E: gen.Prop{X: gen.Var{Name: "forloop"}, Name: n}} }
	return []gen.Node{gen.Text{S: "["}, gen.Out{E: item}, gen.Text{S: "|"}, fl("index"), gen.Text{S: "|"}, fl("index0"), gen.Text{S: "|"}, fl("rindex"), gen.Text{S: "|"},
		fl("rindex0"), gen.Text{S: "|"}, fl("length"), gen.Text{S: "|"}, fl("first"), gen.Text{S: "|"}, fl("last"), gen.Text{S: "]"}}
}

func intLit(i int) gen.Expr { return gen.Lit{V: gen.Int(int64(i))} }

// c11Realise builds the Go binding for collection representation kind.
func c11Realise(kind int, items []int64) (any, bool) {
	switch kind {
	case 0:
		out := make([]any, len(items))
		for i, x := range items {
			out[i] = int(x)
		}
		return out, true
	case 1:
		out := make([]int, len(items))
		for i, x := range items {
			out[i] = int(x)
		}
		return out, true
	case 2:
		at := reflect.ArrayOf(len(items), reflect.TypeOf(int(0)))
		av := reflect.New(at).Elem()
		for i, x := range items {
			av.Index(i).SetInt(x)
		}
		return av.Interface(), true
	case 5:
		out := make([]any, len(items))
		for i, x := range items {
			out[i] = int(x)
		}
		return gen.DropV{X: out}, true
	case 6:
		out := make([]string, len(items))
		for i, x := range items {
			out[i] = "s" + strconv.FormatInt(x, 10)
		}
		return out, true
	}
	return nil, false
}

func runC11(c *core.Ctx) {
	e := liquid.NewEngine()
	m := &ref.Model{MapOrder: true}
	idx := 0
	// ---- main grid -----------------------------------------------------------
	mods := []int{-100, 0, 1, 2, 3, 4, 5, 6, 7, 8} // -100 = absent
	for L := 0; L <= 7; L++ {
		for _, off := range mods {
			for _, lim := range mods {
				for rev := 0; rev < 2; rev++ {
					for tcols := -1; tcols <= 5; tcols++ { // -1 = plain for; 0 = tablerow without cols; k = cols k-... (5 -> cols 4)
						for kind := 0; kind < 7; kind++ {
							for bc := 0; bc < 3; bc++ { // 0 none, 1 break, 2 continue
								idx++
								if !c.Mine(idx) {
									continue
								}
								r := c.Rand(idx)
								if c.Quick && L > 5 && !r.P(1, 2) {
									continue
								}
								if !c.Quick && bc > 0 && L > 4 && !r.P(1, 2) {
									continue
								}
								c11Grid(c, e, m, r, idx, L, off, lim, rev == 1, tcols, kind, bc)
							}
						}
					}
				}
			}
		}
	}
	// ---- ranges: all endpoint pairs in -3..6 -------------------------------------
	for a := -3; a <= 6; a++ {
		for b := -3; b <= 6; b++ {
			for variant := 0; variant < 4; variant++ {
				idx++
				if !c.Mine(idx) {
					continue
				}
				var coll gen.Expr = gen.RangeE{A: intLit(a), B: intLit(b)}
				env := gen.Env{{K: "a", V: gen.Int(int64(a))}, {K: "b", V: gen.Int(int64(b))}}
				if variant%2 == 1 {
					coll = gen.RangeE{A: gen.Var{Name: "a"}, B: gen.Var{Name: "b"}}
				}
				f := gen.For{Var: "x", Coll: coll, Reversed: variant >= 2, Body: traceBody(gen.Var{Name: "x"}), HasElse: true, Else: []gen.Node{gen.Text{S: "ELSE"}}}
				prog := []gen.Node{f}
				src := gen.DefaultStyle.Source(prog)
				if !c.Begin("range:" + src) {
					continue
				}
				if modelCompare(c, e, m, prog, env, nil, gen.DefaultStyle, "range", "a for loop over a range did not visit exactly the integers a..b (none when b < a) with consistent forloop fields") {
					c.Obs("range_cases", 1)
					c.Distinct("range", src)
				}
			}
		}
	}
	// ---- maps: [key, value] pairs, each once ---------------------------------------
	for n := 0; n <= 7; n++ {
		for variant := 0; variant < 6; variant++ {
			idx++
			if !c.Mine(idx) {
				continue
			}
			r := c.Rand(idx)
			mv := map[string]any{}
			var want []string
			for i := 0; i < n; i++ {
				k := fmt.Sprintf("k%c%d", 'a'+r.Intn(26), i)
				mv[k] = i * 3
				want = append(want, fmt.Sprintf("<%s=%d>", k, i*3))
			}
			sort.Strings(want)
			var b map[string]any
			switch variant % 3 {
			case 0:
				b = map[string]any{"m": mv}
			case 1:
				tm := map[string]int{}
				for k, v := range mv {
					tm[k] = v.(int)
				}
				b = map[string]any{"m": tm}
			default:
				b = map[string]any{"m": gen.DropV{X: mv}}
			}
			tag, end := "for", "endfor"
			if variant >= 3 {
				tag, end = "tablerow", "endtablerow"
			}
			src := "{% " + tag + " kv in m %}<{{ kv[0] }}={{ kv[1] }}>;{{ forloop.index }}/{{ forloop.length }}/{{ forloop.first }}/{{ forloop.last }};{% " + end + " %}"
			if !c.Begin("map:" + src + gen.DescribeEnv(b)) {
				continue
			}
			res := core.Run(e, src, b)
			c.Eval(1)
			c.Obs("map_cases", 1)
			c.Distinct("map", src, gen.DescribeEnv(b))
			ok := res.OK()
			var got, fields []string
			if ok {
				out := ref.NormTable(res.Out)
				for _, t := range []string{"<tr>", "</tr>", "<td>", "</td>"} {
					out = strings.ReplaceAll(out, t, "")
				}
				parts := strings.Split(out, ";")
				for i := 0; i+1 < len(parts); i += 2 {
					got = append(got, parts[i])
					fields = append(fields, parts[i+1])
				}
				sort.Strings(got)
				ok = strings.Join(got, ",") == strings.Join(want, ",")
				for i, f := range fields {
					if f != fmt.Sprintf("%d/%d/%v/%v", i+1, n, i == 0, i == n-1) {
						ok = false
					}
				}
				if len(fields) != n {
					ok = false
				}
			}
			if !ok {
				c.Violate("map|"+tag+"|"+resClass(res), "a loop over a map did not visit each [key, value] pair exactly once with consistent forloop fields",
					map[string]any{"source": src, "bindings": gen.DescribeEnv(b), "expected_pairs": want, "observed": res.Brief()})
			}
			// the caller updates the map in place (same size) and renders again: the loop must show the new values
			if variant%3 == 0 && n > 0 {
				var want2 []string
				for k := range mv {
					mv[k] = mv[k].(int) + 100
					want2 = append(want2, fmt.Sprintf("<%s=%d>", k, mv[k]))
				}
				sort.Strings(want2)
				res2 := core.Run(e, "{% for kv in m %}<{{ kv[0] }}={{ kv[1] }}>,{% endfor %}", b)
				c.Eval(1)
				c.Obs("map_in_place_update_cases", 1)
				got2 := strings.Split(strings.TrimSuffix(res2.Out, ","), ",")
				sort.Strings(got2)
				if !res2.OK() || strings.Join(got2, ",") != strings.Join(want2, ",") {
					c.Violate("map|stale-after-in-place-update", "after the caller updated a map in place, a loop over it still visited the old pairs",
						map[string]any{"expected_pairs": want2, "observed": res2.Brief()})
				}
			}
		}
	}
	// ---- negative offset / limit: invariants only -------------------------------------
	for L := 0; L <= 7; L++ {
		for _, off := range []int{-100, -1, -3, 2} {
			for _, lim := range []int{-100, -1, -3, 2} {
				for rev := 0; rev < 2; rev++ {
					if off >= 0 && lim >= 0 || off == -100 && lim == -100 {
						continue
					}
					idx++
					if !c.Mine(idx) {
						continue
					}
					src := "{% for x in coll"
					if rev == 1 {
						src += " reversed"
					}
					if off != -100 {
						src += fmt.Sprintf(" offset: %d", off)
					}
					if lim != -100 {
						src += fmt.Sprintf(" limit: %d", lim)
					}
					src += " %}[{{ x }}|{{ forloop.index }}|{{ forloop.index0 }}|{{ forloop.rindex }}|{{ forloop.rindex0 }}|{{ forloop.length }}|{{ forloop.first }}|{{ forloop.last }}]{% endfor %}"
					items := make([]any, L)
					for i := range items {
						items[i] = 10 + i
					}
					if !c.Begin(fmt.Sprintf("negative-modifiers:%s L=%d", src, L)) {
						continue
					}
					res := core.Run(e, src, map[string]any{"coll": items})
					c.Eval(1)
					c.Obs("negative_modifier_cases", 1)
					c.Distinct("neg", src, fmt.Sprint(L))
					bad := ""
					if !res.OK() {
						if res.Panic != "" || res.Shape != "" {
							bad = "panic or malformed result"
						}
					} else {
						chunks := strings.Split(strings.TrimSuffix(strings.TrimPrefix(res.Out, "["), "]"), "][")
						if res.Out == "" {
							chunks = nil
						}
						n := len(chunks)
						prev := 0
						for i, ch := range chunks {
							f := strings.Split(ch, "|")
							if len(f) != 8 {
								bad = "malformed trace"
								break
							}
							it, _ := strconv.Atoi(f[0])
							want := fmt.Sprintf("%d|%d|%d|%d|%d|%v|%v", i+1, i, n-i, n-i-1, n, i == 0, i == n-1)
							if strings.Join(f[1:], "|") != want {
								bad = "forloop fields inconsistent with the number of items visited"
							}
							if it < 10 || it >= 10+L {
								bad = "visited something that is not an item"
							}
							if i > 0 && (rev == 0 && it != prev+1 || rev == 1 && it != prev-1) {
								bad = "visited items are not a contiguous run of the (reversed) sequence"
							}
							prev = it
						}
					}
					if bad != "" {
						c.Violate("negative-modifier|"+strings.ReplaceAll(bad, " ", "_"), "with a negative offset/limit (no meaning stated) the loop broke an invariant: "+bad,
							map[string]any{"source": src, "length": L, "observed": res.Brief()})
					}
				}
			}
		}
	}
	// ---- modifiers and range endpoints given as variables of any integer width (also computed by a filter) -------------
	for L := 0; L <= 6; L++ {
		for off := 0; off <= 3; off++ {
			for lim := 0; lim <= 4; lim += 2 {
				for form := 0; form < 3; form++ {
					idx++
					if !c.Mine(idx) {
						continue
					}
					r := c.Rand(idx, 111)
					rep := gen.Rep{Widths: true, Unsigned: true, Named: true}
					items := make([]any, L)
					for i := range items {
						items[i] = 10 + i
					}
					b := map[string]any{"coll": items, "o": gen.Realise(gen.Int(int64(off)), r, rep, false), "l": gen.Realise(gen.Int(int64(lim)), r, rep, false),
						"c": gen.Realise(gen.Int(2), r, rep, false), "lo": gen.Realise(gen.Int(int64(off)), r, rep, false), "hi": gen.Realise(gen.Int(int64(off+lim)), r, rep, false)}
					var src, ref string
					switch form {
					case 0:
						src = "{% for x in coll offset: o limit: l %}{{ x }}.{{ forloop.index }},{% endfor %}|{% for x in (lo..hi) %}{{ x }},{% endfor %}"
						ref = fmt.Sprintf("{%% for x in coll offset: %d limit: %d %%}{{ x }}.{{ forloop.index }},{%% endfor %%}|{%% for x in (%d..%d) %%}{{ x }},{%% endfor %%}", off, lim, off, off+lim)
					case 1:
						src = "{% tablerow x in coll cols: c offset: o %}{{ x }}{% endtablerow %}"
						ref = fmt.Sprintf("{%% tablerow x in coll cols: 2 offset: %d %%}{{ x }}{%% endtablerow %%}", off)
					default:
						// numbers that come out of numeric filters (divided_by yields another integer type than a literal)
						// (divided_by with an integer divisor yields an integer; plus/minus/times yield floats, whose use as a modifier is not stated)
						src = "{% assign oo = o | times: 2 | divided_by: 2 %}{% assign ll = l | divided_by: 1 %}{% for x in coll offset: oo limit: ll %}{{ x }},{% endfor %}|{% assign h = hi | times: 3 | divided_by: 3 %}{% for x in (oo..h) %}{{ x }},{% endfor %}"
						ref = fmt.Sprintf("{%% for x in coll offset: %d limit: %d %%}{{ x }},{%% endfor %%}|{%% for x in (%d..%d) %%}{{ x }},{%% endfor %%}", off, lim, off, off+lim)
					}
					if !c.Begin(fmt.Sprintf("modifier-widths:%s %s", src, gen.DescribeEnv(b))) {
						continue
					}
					want := core.Run(e, ref, map[string]any{"coll": items})
					got := core.Run(e, src, b)
					c.Eval(2)
					c.Obs("modifier_width_cases", 1)
					c.Distinct("modw", src, gen.DescribeEnv(b))
					if !want.OK() || !got.Same(want) {
						c.Violate("modifier-width|"+resClass(got), "offset, limit, cols and range endpoints are numbers: a variable of another integer width or named type, or the result of a numeric filter, must select the same items as the literal",
							map[string]any{"source": src, "bindings": gen.DescribeEnv(b), "with_literals": ref, "literals_gave": want.Brief(), "observed": got.Brief()})
					}
				}
			}
		}
	}
	// ---- ordered maps (yaml.MapSlice): [key, value] pairs, each once -----------------------
	for n := 0; n <= 5; n++ {
		idx++
		if !c.Mine(idx) {
			continue
		}
		var ms yaml.MapSlice
		var want []string
		for i := 0; i < n; i++ {
			ms = append(ms, yaml.MapItem{Key: fmt.Sprintf("k%d", (i*7)%5), Value: i})
			want = append(want, fmt.Sprintf("<k%d=%d>", (i*7)%5, i))
		}
		sort.Strings(want)
		src := "{% for kv in m %}<{{ kv[0] }}={{ kv[1] }}>,{% else %}ELSE{% endfor %}"
		if !c.Begin(fmt.Sprintf("mapslice:%s n=%d", src, n)) {
			continue
		}
		res := core.Run(e, src, map[string]any{"m": ms})
		c.Eval(1)
		c.Obs("mapslice_cases", 1)
		c.Distinct("mapslice", fmt.Sprint(n))
		got := strings.Split(strings.TrimSuffix(res.Out, ","), ",")
		sort.Strings(got)
		if n == 0 {
			got, want = []string{res.Out}, []string{"ELSE"}
		}
		if !res.OK() || strings.Join(got, ",") != strings.Join(want, ",") {
			c.Violate("mapslice|"+resClass(res), "a loop over an ordered map did not visit each [key, value] pair exactly once (or its else branch when empty)",
				map[string]any{"source": src, "entries": n, "observed": res.Brief()})
		}
	}
	// ---- break / continue executed inside an application-defined block (RegisterBlock) within the loop body ------
	// (the block hands its output over as one string, so an iteration that is interrupted inside it contributes nothing)
	ce := liquid.NewEngine()
	RegisterCustom(ce)
	for L := 0; L <= 6; L++ {
		for at := 1; at <= L+1; at++ {
			for bc := 0; bc < 2; bc++ {
				for form := 0; form < 3; form++ {
					idx++
					if !c.Mine(idx) {
						continue
					}
					kw := []string{"break", "continue"}[bc]
					inner := fmt.Sprintf("{{ i }}{%% if forloop.index == %d %%}{%% %s %%}{%% endif %%}|", at, kw)
					var src string
					switch form {
					case 0:
						src = "{% for i in a %}{% xwrap w %}" + inner + "{% endxwrap %}{% endfor %}"
					case 1:
						src = "{% for i in a %}{% xtwice %}" + inner + "{% endxtwice %}{% endfor %}"
					default:
						src = "{% for i in a %}{% xwhen true %}{% xwrap {{ i }} %}" + inner + "{% endxwrap %}{% endxwhen %}{% endfor %}"
					}
					if !c.Begin(fmt.Sprintf("custom-block-%s: %s L=%d", kw, src, L)) {
						continue
					}
					arr := make([]any, L)
					want := ""
					for k := 1; k <= L; k++ {
						arr[k-1] = k * 11
						if k == at {
							if bc == 0 {
								break
							}
							continue
						}
						body := fmt.Sprintf("%d|", k*11)
						switch form {
						case 0:
							want += "<w>" + body + "</>"
						case 1:
							want += body + body
						default:
							want += fmt.Sprintf("<%d>%s</>", k*11, body)
						}
					}
					expectOut(c, ce, src, map[string]any{"a": arr}, want, "custom-block-"+kw, "break/continue executed inside an application-defined block ends/skips the iteration of the enclosing loop", nil)
					c.Obs("custom_block_interrupt_cases", 1)
					c.Distinct("cbi", src, fmt.Sprint(L))
				}
			}
		}
	}
	// ---- cycle ---------------------------------------------------------------------
	for L := 0; L <= 7; L++ {
		for variant := 0; variant < 8; variant++ {
			idx++
			if !c.Mine(idx) {
				continue
			}
			body := []gen.Node{gen.Cycle{Vals: []string{"a", "b", "c"}[:1+variant%3]}, gen.Text{S: ","}}
			switch variant {
			case 3:
				body = append(body, gen.Cycle{HasGroup: true, Group: "g1", Vals: []string{"x", "y"}}, gen.Text{S: ";"})
			case 4: // same group twice per iteration
				body = []gen.Node{gen.Cycle{HasGroup: true, Group: "g", Vals: []string{"1", "2", "3"}}, gen.Cycle{HasGroup: true, Group: "g", Vals: []string{"1", "2", "3"}}, gen.Text{S: ","}}
			case 5: // nested loop with its own cycle
				body = append(body, gen.For{Var: "j", Coll: gen.RangeE{A: intLit(1), B: intLit(2)}, Body: []gen.Node{gen.Cycle{Vals: []string{"p", "q", "r"}}}}, gen.Text{S: ";"})
			case 6: // cycle inside if
				body = []gen.Node{gen.If{Conds: []gen.Expr{gen.Cmp{Op: "!=", A: gen.Prop{X: gen.Var{Name: "forloop"}, Name: "index"}, B: intLit(2)}}, Bodies: [][]gen.Node{{gen.Cycle{Vals: []string{"a", "b"}}}}}, gen.Text{S: ","}}
			case 7: // two loops in sequence: counters restart
				body = []gen.Node{gen.Cycle{HasGroup: true, Group: "g2", Vals: []string{"p", "q"}}}
			}
			if L%2 == 1 && variant < 3 {
				// two tags of one group (named / unnamed) with value lists of different length share one position
				grp := variant == 1
				body = []gen.Node{gen.Cycle{HasGroup: grp, Group: "g", Vals: []string{"a", "b"}}, gen.Cycle{HasGroup: grp, Group: "g", Vals: []string{"x", "y", "z"}}, gen.Text{S: " "}}
				if variant == 2 {
					body = append(body, gen.Cycle{Vals: []string{"1", "2", "3", "4"}})
				}
			}
			prog := []gen.Node{gen.For{Var: "i", Coll: gen.RangeE{A: intLit(1), B: intLit(L)}, Body: body}}
			if variant == 7 {
				prog = append(prog, gen.Text{S: "|"}, gen.For{Var: "i", Coll: gen.RangeE{A: intLit(1), B: intLit(3)}, Body: body})
			}
			src := gen.DefaultStyle.Source(prog)
			if !c.Begin("cycle:" + src) {
				continue
			}
			if modelCompare(c, e, m, prog, nil, nil, gen.DefaultStyle, "cycle", "cycle did not emit its values round-robin per loop and group") {
				c.Obs("cycle_cases", 1)
				c.Distinct("cycle", src)
			}
		}
	}
	// ---- random nestings -------------------------------------------------------------
	n := c.Pick(30000, 600000)
	for i := 0; i < n; i++ {
		if !c.Mine(i) {
			continue
		}
		r := c.Rand(i, 11)
		env := gen.StdEnv(r)
		// captured tablerow markup must not reach filters (its attributes are not stated): tablerow only without capture
		f := gen.Features{Loops: true, Tablerow: i%3 != 0, Cycle: true, Assign: true, Case: i%2 == 0, Capture: i%3 == 0, Filters: i%2 == 1, Model: true, MaxDepth: 4, MaxNodes: 16}
		g := gen.NewG(r, f, env)
		prog := g.Program()
		if i%2 == 0 { // force a loop at top level
			l := gen.For{Var: "i", Coll: g.Coll(), Reversed: r.P(1, 3), Body: append(traceBody(gen.Var{Name: "i"}), prog...)}
			prog = []gen.Node{l, gen.Text{S: "after"}, gen.Out{E: gen.Var{Name: "i"}}}
		}
		src := gen.DefaultStyle.Source(prog)
		if !c.Begin("program:" + src + " env=" + env.String()) {
			continue
		}
		if modelCompare(c, e, m, prog, env, nil, gen.DefaultStyle, "program", "a generated nesting of loops rendered differently from the reference model") {
			c.Obs("program_cases", 1)
			if strings.Contains(src, "{% for") || strings.Contains(src, "{% tablerow") {
				c.Distinct("prog", src, env.String())
			}
			if i%6007 == 3 {
				c.Sample(map[string]any{"source": src, "bindings": core.Trunc(env.String(), 200)})
			}
		}
	}
}

func c11Grid(c *core.Ctx, e *liquid.Engine, m *ref.Model, r *core.Rand, idx, L, off, lim int, rev bool, tcols, kind, bc int) {
	items := make([]int64, L)
	base := int64(r.Range(-2, 3))
	for i := range items {
		items[i] = base + int64(i) // consecutive, so that the same logical items work for ranges
	}
	env := gen.Env{}
	var b map[string]any
	var coll gen.Expr = gen.Var{Name: "coll"}
	lv := gen.Ints(items...)
	switch kind {
	case 3: // range literal
		coll = gen.RangeE{A: gen.Lit{V: gen.Int(base)}, B: gen.Lit{V: gen.Int(base + int64(L) - 1)}}
	case 4: // range with variable endpoints
		coll = gen.RangeE{A: gen.Var{Name: "lo"}, B: gen.Var{Name: "hi"}}
		env = append(env, gen.KV{K: "lo", V: gen.Int(base)}, gen.KV{K: "hi", V: gen.Int(base + int64(L) - 1)})
	case 6:
		ss := make([]gen.V, L)
		for i, x := range items {
			ss[i] = gen.Str("s" + strconv.FormatInt(x, 10))
		}
		lv = gen.Arr(ss...)
	}
	env = append(env, gen.KV{K: "coll", V: lv}, gen.KV{K: "o", V: gen.Int(int64(off))}, gen.KV{K: "l", V: gen.Int(int64(lim))}, gen.KV{K: "c", V: gen.Int(int64(tcols - 1))})
	b = gen.CanonEnv(env)
	if g, ok := c11Realise(kind, items); ok {
		b["coll"] = g
	}
	modVar := idx%2 == 0 // modifiers as variables or as literals
	f := gen.For{Var: "x", Coll: coll, Reversed: rev, Body: traceBody(gen.Var{Name: "x"}), ModOrder: idx % 8}
	if off != -100 {
		f.Offset = intLit(off)
		if modVar {
			f.Offset = gen.Var{Name: "o"}
		}
	}
	if lim != -100 {
		f.Limit = intLit(lim)
		if modVar {
			f.Limit = gen.Var{Name: "l"}
		}
	}
	if tcols >= 0 {
		f.Tablerow = true
		if tcols >= 2 {
			f.Cols = intLit(tcols - 1)
			if modVar {
				f.Cols = gen.Var{Name: "c"}
			}
		} else if tcols == 1 {
			return // cols: 0 is not asserted
		}
	} else {
		f.HasElse = true
		f.Else = []gen.Node{gen.Text{S: "ELSE"}}
	}
	if bc > 0 {
		var ctl gen.Node = gen.Break{}
		if bc == 2 {
			ctl = gen.Continue{}
		}
		p := r.Range(1, L+1)
		cond := gen.Cmp{Op: "==", A: gen.Prop{X: gen.Var{Name: "forloop"}, Name: "index"}, B: intLit(p)}
		// what the branch has rendered before it interrupts the loop is output like anything else
		before := [][]gen.Node{{ctl}, {gen.Text{S: "<stop "}, gen.Out{E: gen.Prop{X: gen.Var{Name: "forloop"}, Name: "index"}}, gen.Text{S: ">"}, ctl}}[r.Intn(2)]
		switch r.Intn(4) {
		case 0:
			f.Body = append(f.Body, gen.If{Conds: []gen.Expr{cond}, Bodies: [][]gen.Node{before}}, gen.Text{S: "."})
		case 1:
			f.Body = append(f.Body, gen.If{Conds: []gen.Expr{gen.Lit{V: gen.Bool(false)}, cond}, Bodies: [][]gen.Node{{gen.Text{S: "never"}}, before}, HasElse: true, Else: []gen.Node{gen.Text{S: "-"}}}, gen.Text{S: "."})
		case 2:
			f.Body = append(f.Body, gen.Case{Subj: gen.Prop{X: gen.Var{Name: "forloop"}, Name: "index"}, Whens: [][]gen.Expr{{intLit(p)}}, Bodies: [][]gen.Node{before}, HasElse: true, Else: []gen.Node{gen.Text{S: "-"}}}, gen.Text{S: "."})
		default:
			f.Body = append(f.Body, ctl, gen.Text{S: "UNREACHED"})
		}
	}
	// an enclosing loop must be unaffected by break/continue of the inner one
	prog := []gen.Node{f}
	if bc > 0 && idx%3 == 0 {
		prog = []gen.Node{gen.For{Var: "outer", Coll: gen.RangeE{A: intLit(1), B: intLit(2)}, Body: []gen.Node{gen.Text{S: "("}, f, gen.Text{S: ")"}, gen.Out{E: gen.Prop{X: gen.Var{Name: "forloop"}, Name: "index"}}}}}
	}
	src := gen.DefaultStyle.Source(prog)
	if !c.Begin("grid:" + src + " " + gen.DescribeEnv(b)) {
		return
	}
	if modelCompare(c, e, m, prog, env, b, gen.DefaultStyle, fmt.Sprintf("grid|kind%d|%s", kind, map[bool]string{false: "for", true: "tablerow"}[f.Tablerow]),
		"a loop did not visit exactly the selected items (reverse, then offset, then limit) with consistent forloop state / else branch / break-continue scope") {
		c.Obs("grid_cases", 1)
		c.Distinct("grid", src, gen.DescribeEnv(b))
		if idx%50021 == 5 {
			c.Sample(map[string]any{"source": src, "bindings": gen.DescribeEnv(b)})
		}
	}
}
