package core

import "github.com/osteele/liquid/verifhook"

func hookCounts() map[string]int64 {
	out := map[string]int64{}
	cs := verifhook.Counts()
	for i, n := range cs {
		out[verifhook.SiteNames[i]] = n
	}
	return out
}
