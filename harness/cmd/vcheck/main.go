// vcheck is the single binary behind run.sh: driver and worker of every property check.
package main

import (
	"verif/harness/core"
	_ "verif/harness/props"
)

func main() { core.Main() }
