package core

// Rand is a splitmix64 stream. All random choices in the harness come from
// streams keyed by (VERIF_SEED, property, case index), so a run is a
// deterministic function of the seed.
type Rand struct{ s uint64 }

func mix(x uint64) uint64 {
	x += 0x9e3779b97f4a7c15
	x = (x ^ (x >> 30)) * 0xbf58476d1ce4e5b9
	x = (x ^ (x >> 27)) * 0x94d049bb133111eb
	return x ^ (x >> 31)
}

// NewRand returns a stream keyed by the given words.
func NewRand(keys ...uint64) *Rand {
	s := uint64(0x243f6a8885a308d3)
	for _, k := range keys {
		s = mix(s ^ k)
	}
	return &Rand{s}
}

// HashString hashes a string to a key word (FNV-1a, then mixed).
func HashString(s string) uint64 {
	h := uint64(14695981039346656037)
	for i := 0; i < len(s); i++ {
		h ^= uint64(s[i])
		h *= 1099511628211
	}
	return mix(h)
}

func (r *Rand) U64() uint64 {
	r.s += 0x9e3779b97f4a7c15
	x := r.s
	x = (x ^ (x >> 30)) * 0xbf58476d1ce4e5b9
	x = (x ^ (x >> 27)) * 0x94d049bb133111eb
	return x ^ (x >> 31)
}

// Intn returns a value in [0,n).
func (r *Rand) Intn(n int) int {
	if n <= 1 {
		return 0
	}
	return int(r.U64() % uint64(n))
}

// Range returns a value in [lo,hi].
func (r *Rand) Range(lo, hi int) int { return lo + r.Intn(hi-lo+1) }

// Bool returns true with probability 1/2.
func (r *Rand) Bool() bool { return r.U64()&1 == 1 }

// P returns true with probability num/den.
func (r *Rand) P(num, den int) bool { return r.Intn(den) < num }

// Pick returns one of the strings.
func (r *Rand) Pick(ss ...string) string { return ss[r.Intn(len(ss))] }

// Perm returns a permutation of 0..n-1.
func (r *Rand) Perm(n int) []int {
	p := make([]int, n)
	for i := range p {
		p[i] = i
	}
	for i := n - 1; i > 0; i-- {
		j := r.Intn(i + 1)
		p[i], p[j] = p[j], p[i]
	}
	return p
}
