package gen

import "strings"

// CountStrings is the number of strings of length 0..maxLen over k symbols.
func CountStrings(k, maxLen int) int {
	n, p := 0, 1
	for l := 0; l <= maxLen; l++ {
		n += p
		p *= k
	}
	return n
}

// NthString returns the idx-th string (shortlex order) over the alphabet.
func NthString(alpha []string, idx int) string {
	k := len(alpha)
	l, p := 0, 1
	for idx >= p {
		idx -= p
		p *= k
		l++
	}
	parts := make([]string, l)
	for i := l - 1; i >= 0; i-- {
		parts[i] = alpha[idx%k]
		idx /= k
	}
	return strings.Join(parts, "")
}

// NthSeq returns the idx-th sequence (shortlex) of symbol indices over k symbols.
func NthSeq(k, idx int) []int {
	l, p := 0, 1
	for idx >= p {
		idx -= p
		p *= k
		l++
	}
	out := make([]int, l)
	for i := l - 1; i >= 0; i-- {
		out[i] = idx % k
		idx /= k
	}
	return out
}
