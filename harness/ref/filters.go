package ref

import (
	"math"
	"math/big"
	"strconv"
	"strings"
	"unicode"

	"verif/harness/gen"
)

// ParseNum reads a string that spells a number (decimal integer or decimal fraction).
func ParseNum(s string) (V, bool) {
	if s == "" {
		return gen.Nil, false
	}
	digits, dots := 0, 0
	for i, c := range s {
		switch {
		case c >= '0' && c <= '9':
			digits++
		case c == '-' && i == 0:
		case c == '.':
			dots++
		default:
			return gen.Nil, false
		}
	}
	if digits == 0 || dots > 1 || strings.HasPrefix(s, ".") || strings.HasSuffix(s, ".") || strings.HasPrefix(s, "-.") {
		return gen.Nil, false
	}
	if dots == 0 {
		n, err := strconv.ParseInt(s, 10, 64)
		if err != nil {
			return gen.Nil, false
		}
		return gen.Int(n), true
	}
	f, err := strconv.ParseFloat(s, 64)
	if err != nil {
		return gen.Nil, false
	}
	return gen.Float(f), true
}

// Rat converts a number to an exact rational.
func Rat(v V) *big.Rat {
	if v.K == gen.KInt {
		return new(big.Rat).SetInt64(v.I)
	}
	r := new(big.Rat)
	r.SetFloat64(v.F)
	return r
}

// FromRat turns an exact result into the number the engine should print:
// ok=false when the result is not exactly representable as a float64
// (the C17 statement promises exactness only then).
func FromRat(r *big.Rat) (V, bool) {
	f, exact := r.Float64()
	if !exact || math.IsInf(f, 0) {
		return gen.Nil, false
	}
	return gen.Float(f), true
}

// operand converts a filter receiver/argument to a number per C17.
// Receivers may be numeric strings; a non-numeric string is an error; nil is unspecified.
func operand(v V, receiver bool) (V, Status) {
	switch v.K {
	case gen.KInt, gen.KFloat:
		if v.K == gen.KFloat && (math.IsNaN(v.F) || math.IsInf(v.F, 0)) {
			return v, Unsp
		}
		if v.K == gen.KInt && (v.I > two53 || v.I < -two53) {
			return v, Unsp
		}
		return v, OK
	case gen.KStr:
		if n, ok := ParseNum(v.S); ok {
			if n.Num() == 0 && strings.HasPrefix(v.S, "-") {
				return n, Unsp // "-0": negative zero
			}
			if receiver {
				return operand(n, receiver)
			}
			return n, Unsp // numeric string as argument: not stated
		}
		if strings.TrimSpace(v.S) != v.S || strings.ContainsAny(v.S, "eE+_") {
			return v, Unsp // " 7", "1e3": whether these "spell a number" is not stated
		}
		return v, Err
	}
	return v, Unsp
}

// Filter evaluates the filters the reference model knows exactly.
func Filter(name string, recv V, args []V) (V, Status) {
	str := func(v V) (string, bool) {
		switch v.K {
		case gen.KStr:
			return v.S, true
		case gen.KNil:
			return "", true
		case gen.KInt, gen.KFloat, gen.KBool:
			s, _ := gen.Print(v)
			return s, true
		}
		return "", false
	}
	arg := func(i int) V {
		if i < len(args) {
			return args[i]
		}
		return gen.Nil
	}
	switch name {
	case "append", "prepend":
		if len(args) != 1 {
			return gen.Nil, Unsp
		}
		s, ok1 := str(recv)
		a, ok2 := str(arg(0))
		if !ok1 || !ok2 {
			return gen.Nil, Unsp
		}
		if name == "append" {
			return gen.Str(s + a), OK
		}
		return gen.Str(a + s), OK
	case "upcase", "downcase":
		s, ok := str(recv)
		if !ok || len(args) != 0 {
			return gen.Nil, Unsp
		}
		for _, c := range s {
			if c > 127 {
				return gen.Nil, Unsp // non-ASCII case mapping: either unchanged or Unicode mapping
			}
		}
		if name == "upcase" {
			return gen.Str(strings.ToUpper(s)), OK
		}
		return gen.Str(strings.ToLower(s)), OK
	case "strip":
		s, ok := str(recv)
		if !ok || len(args) != 0 {
			return gen.Nil, Unsp
		}
		return gen.Str(strings.TrimFunc(s, unicode.IsSpace)), OK
	case "size":
		if len(args) != 0 {
			return gen.Nil, Unsp
		}
		switch recv.K {
		case gen.KStr:
			return gen.Int(int64(RuneLen(recv.S))), OK
		case gen.KArr:
			return gen.Int(int64(len(recv.A))), OK
		}
		return gen.Nil, Unsp
	case "plus", "minus", "times":
		if len(args) != 1 {
			return gen.Nil, Unsp
		}
		a, sa := operand(recv, true)
		b, sb := operand(arg(0), false)
		if sa == Err || sb == Err {
			if sa == Unsp || sb == Unsp {
				return gen.Nil, Unsp
			}
			return gen.Nil, Err
		}
		if sa != OK || sb != OK {
			return gen.Nil, Unsp
		}
		r := new(big.Rat)
		switch name {
		case "plus":
			r.Add(Rat(a), Rat(b))
		case "minus":
			r.Sub(Rat(a), Rat(b))
		default:
			r.Mul(Rat(a), Rat(b))
		}
		v, ok := FromRat(r)
		if !ok {
			return gen.Nil, Unsp
		}
		if r.Sign() == 0 && (negOrNegZero(a) || negOrNegZero(b)) {
			return gen.Nil, Unsp // IEEE arithmetic may yield -0, which equals 0; how it prints is not stated
		}
		if ExactInt(v.F) {
			return gen.Int(int64(v.F)), OK
		}
		return v, OK
	case "join":
		if recv.K != gen.KArr || len(args) != 1 || arg(0).K != gen.KStr {
			return gen.Nil, Unsp
		}
		var parts []string
		for _, e := range recv.A {
			if e.K == gen.KNil {
				continue
			}
			if e.K == gen.KArr || e.K == gen.KMap {
				return gen.Nil, Unsp
			}
			p, ok := gen.Print(e)
			if !ok {
				return gen.Nil, Unsp
			}
			parts = append(parts, p)
		}
		return gen.Str(strings.Join(parts, arg(0).S)), OK
	case "first", "last":
		if recv.K != gen.KArr || len(args) != 0 {
			return gen.Nil, Unsp
		}
		if len(recv.A) == 0 {
			return gen.Nil, OK
		}
		if name == "first" {
			return recv.A[0], OK
		}
		return recv.A[len(recv.A)-1], OK
	case "reverse":
		if recv.K != gen.KArr || len(args) != 0 {
			return gen.Nil, Unsp
		}
		out := make([]V, len(recv.A))
		for i, e := range recv.A {
			out[len(out)-1-i] = e
		}
		return gen.Arr(out...), OK
	case "compact":
		if recv.K != gen.KArr || len(args) != 0 {
			return gen.Nil, Unsp
		}
		out := []V{}
		for _, e := range recv.A {
			if e.K != gen.KNil {
				out = append(out, e)
			}
		}
		return gen.Arr(out...), OK
	case "concat":
		if recv.K != gen.KArr || len(args) != 1 || arg(0).K != gen.KArr {
			return gen.Nil, Unsp
		}
		out := append(append([]V{}, recv.A...), arg(0).A...)
		return gen.Arr(out...), OK
	case "divided_by", "modulo":
		if len(args) == 1 {
			b := arg(0)
			if b.IsNum() && b.Num() == 0 {
				if a, sa := operand(recv, true); sa == OK || sa == Err {
					_ = a
					return gen.Nil, Err
				}
			}
		}
		return gen.Nil, Unsp
	}
	return gen.Nil, Unsp
}

// KnownFilter reports whether name is a standard filter (else: unknown filter => error).
func KnownFilter(name string) bool {
	switch name {
	case "abs", "append", "capitalize", "ceil", "compact", "concat", "date", "default", "divided_by", "downcase", "escape", "escape_once",
		"first", "floor", "inspect", "join", "json", "last", "lstrip", "map", "minus", "modulo", "newline_to_br", "plus", "prepend", "remove", "remove_first",
		"replace", "replace_first", "reverse", "round", "rstrip", "size", "slice", "sort", "sort_natural", "split", "strip", "strip_html", "strip_newlines",
		"times", "truncate", "truncatewords", "type", "uniq", "upcase", "url_decode", "url_encode":
		return true
	}
	return false
}

func negOrNegZero(v V) bool {
	if v.K == gen.KInt {
		return v.I < 0
	}
	return v.F < 0 || v.F == 0 && math.Signbit(v.F)
}
