#!/bin/bash
# run.sh <ID> <quick|thorough>   |   run.sh <ID> --replay <file>   |   run.sh --setup
# Rebuilds the harness against /repo's current working tree (build tag verif;
# -race for the checks that need it) and runs one property check.
set -u
HERE="$(cd "$(dirname "$0")" && pwd)"
export VERIF_ROOT="$HERE"
export GOFLAGS=-mod=mod GOPROXY=off GOSUMDB=off GOTOOLCHAIN=local
export TZ=UTC
REPO="${VERIF_REPO:-/repo}"
mkdir -p "$HERE/.build" "$HERE/.work" "$HERE/evidence"
cd "$HERE/harness" || exit 2
cp "$REPO/go.sum" go.sum 2>/dev/null
if [ "$REPO" != "/repo" ]; then
  # scratch copies (self-tests of the monitors) use their own modfile so /verif's go.mod is untouched
  sed "s#=> /repo#=> $REPO#" go.mod > "$HERE/.build/go.alt.mod"; cp go.sum "$HERE/.build/go.alt.sum"
  MODFILE="-modfile=$HERE/.build/go.alt.mod"
else
  MODFILE=""
fi
build() { # $1 = output, $2... = extra flags
  out="$1"; shift
  go build $MODFILE -tags verif "$@" -o "$out" ./cmd/vcheck 2> "$HERE/.build/build.log" || {
    echo "BUILD FAILED (inconclusive, not a verdict):"; head -50 "$HERE/.build/build.log"; exit 2; }
}
buildcli() {
  (cd "$REPO" && go build -o "$HERE/.build/liquid-cli" ./cmd/liquid) 2> "$HERE/.build/build-cli.log" || {
    echo "BUILD FAILED (cmd/liquid):"; head -30 "$HERE/.build/build-cli.log"; exit 2; }
}
if [ "${1:-}" = "--setup" ]; then
  build "$HERE/.build/vcheck"
  build "$HERE/.build/vcheck-race" -race
  buildcli
  echo "setup ok"; exit 0
fi
ID="${1:?property id}"; shift
case "$ID" in
  C04) BIN="$HERE/.build/vcheck-race"; build "$BIN" -race ;;
  *)   BIN="$HERE/.build/vcheck"; build "$BIN" ;;
esac
case "$ID" in C02) buildcli ;; esac
export VCHECK_LIQUID_BIN="$HERE/.build/liquid-cli"
exec "$BIN" "$ID" "$@"
