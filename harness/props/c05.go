package props

import (
	"fmt"
	"strings"
	"sync/atomic"
	"unicode"
	"unicode/utf8"

	"github.com/osteele/liquid"
	"github.com/osteele/liquid/parser"
	"github.com/osteele/liquid/render"

	"verif/harness/core"
	"verif/harness/gen"
	"verif/harness/ref"
)

var c05Alpha = []string{"{", "%", "}", "-", "\"", " ", "\n", "a"}

func init() {
	core.Register(&core.Prop{
		ID:    "C05",
		Level: "exploration",
		Rule: "strings over the 8-symbol alphabet {{ % } - \" space newline a}: ALL strings up to length 6 (quick) / 8 (thorough) through parser.Scan (partition + line law) and, when no tag or object opens, through parse+render (identity, also as the registered source of an included template and as captured text); ALL strings up to length 5 / 6 as raw bodies, comment bodies and printed string values; plus PRNG bytes / valid UTF-8 up to 64 KiB. A case is non-trivial when the string contains a delimiter character, a quote, a newline or a non-ASCII byte; distinct = distinct (law, string).",
		Exhaustive: func(string) bool { return true },
		Assumptions: []string{
			"'no tag or object opens' is decided model-free: the source contains neither \"{{\" nor \"{%\"",
			"a raw/comment case is judged only when the frozen reference tokenizer (ref.Tokens, written from the property text) sees exactly: open tag, body tokens without the end tag, end tag; other bodies are counted as skipped",
			"trim pseudo-tokens (empty source, no location) are exempt from the line law",
		},
		Run: runC05,
	})
}

func nontrivialStr(s string) bool {
	for i := 0; i < len(s); i++ {
		switch c := s[i]; {
		case c >= 0x80, c == '{', c == '}', c == '%', c == '-', c == '"', c == '\n', c == '\'':
			return true
		}
	}
	return false
}

func c05ScanLaw(c *core.Ctx, s string, start int) {
	var toks []parser.Token
	var pan any
	func() {
		defer func() { pan = recover() }()
		toks = parser.Scan(s, parser.SourceLoc{LineNo: start}, nil)
	}()
	c.Eval(1)
	if pan != nil {
		c.Violate("scan|panic", "parser.Scan panicked", map[string]any{"source": s, "panic": fmt.Sprint(pan)})
		return
	}
	var sb strings.Builder
	off := 0
	for _, t := range toks {
		if t.Type == parser.TrimLeftTokenType || t.Type == parser.TrimRightTokenType {
			if t.Source != "" {
				sb.WriteString(t.Source)
				off += len(t.Source)
			}
			continue
		}
		want := start + strings.Count(s[:min(off, len(s))], "\n")
		if t.SourceLoc.LineNo != want {
			c.Violate("scan|line", "a token's line is not the starting line plus the newlines before it",
				map[string]any{"source": s, "start_line": start, "token": t.Source, "token_offset": off, "line": t.SourceLoc.LineNo, "want": want})
			return
		}
		sb.WriteString(t.Source)
		off += len(t.Source)
	}
	if sb.String() != s {
		c.Violate("scan|partition", "token sources concatenated in order do not equal the input",
			map[string]any{"source": s, "concatenated": sb.String()})
	}
	c.Obs("scan_tokens_checked", int64(len(toks)))
}

func c05Plain(c *core.Ctx, e *liquid.Engine, s string) {
	r := core.Run(e, s, nil)
	c.Eval(1)
	if !r.OK() || r.Out != s {
		c.Violate("plain|"+resClass(r), "a source in which no tag or object opens did not render to itself",
			map[string]any{"source": s, "observed": r.Brief()})
	}
	c.Obs("plain_text_renders", 1)
	// the same text as the content of an included template (registered source), and captured and printed
	if len(s) < 4000 {
		if _, pr := core.ParseCache(e, s, "c05inc/part.html", 1); pr.OK() {
			ri := core.RunAt(e, "{% include 'part.html' %}", "c05inc/top.html", 1, nil)
			rc := core.Res{Out: s}
			if !strings.HasSuffix(s, "{") { // otherwise the text and the end tag would spell an opening delimiter
				rc = core.Run(e, "{% capture cap %}"+s+"{% endcapture %}{{ cap }}", nil)
			}
			c.Eval(2)
			if !ri.OK() || ri.Out != s {
				c.Violate("plain-included|"+resClass(ri), "literal text that is the content of an included template was not emitted exactly", map[string]any{"included_source": s, "observed": ri.Brief()})
			}
			if !rc.OK() || rc.Out != s {
				c.Violate("plain-captured|"+resClass(rc), "literal text captured and printed was not emitted exactly", map[string]any{"captured_text": s, "observed": rc.Brief()})
			}
			c.Obs("plain_text_included_and_captured", 1)
		} else {
			c.Violate("plain-included|registration", "plain text was rejected by ParseTemplateAndCache", map[string]any{"source": s, "observed": pr.Brief()})
		}
	}
}

// resClass summarises how a result deviates, for violation keys.
func resClass(r core.Res) string {
	switch {
	case r.Panic != "":
		return "panic:" + r.Site
	case r.Shape != "":
		return "badshape"
	case r.IsErr:
		return "error"
	default:
		return "wrong-output"
	}
}

// bodyAdmitted: does open+B+end tokenise as open tag, body, end tag?
func bodyAdmitted(open, body, end, endName string) bool {
	toks := ref.Tokens(open+body+end, ref.DefaultDelims)
	if len(toks) < 2 || toks[0].Kind != ref.Tag || toks[0].Src != open {
		return false
	}
	last := toks[len(toks)-1]
	if last.Kind != ref.Tag || last.Name != endName || last.Src != end {
		return false
	}
	for _, t := range toks[1 : len(toks)-1] {
		if t.Kind == ref.Tag && t.Name == endName {
			return false
		}
	}
	return true
}

var c05Probe atomic.Int64

func c05Body(c *core.Ctx, e *liquid.Engine, b string, i int) {
	pre, post := "", ""
	if i%3 == 1 {
		pre, post = "X\n", " Y"
	} else if i%3 == 2 {
		pre, post = "{{ 1 }}", "{% assign z = 1 %}"
	}
	expPre, expPost := pre, post
	if i%3 == 2 {
		expPre, expPost = "1", ""
	}
	if i%7 == 3 {
		// neighbours whose trim markers face the raw/comment tags: the markers act on literal text, not on a raw body
		pre, post, expPre, expPost = "{{ 1 -}}", "{{- 2 }}", "1", "2"
	}
	if bodyAdmitted("{% raw %}", b, "{% endraw %}", "endraw") {
		src := pre + "{% raw %}" + b + "{% endraw %}" + post
		r := core.Run(e, src, nil)
		c.Eval(1)
		c.Obs("raw_bodies", 1)
		if !r.OK() || r.Out != expPre+b+expPost {
			c.Violate("raw|"+resClass(r), "the body of a raw block was not emitted exactly as written",
				map[string]any{"source": src, "body": b, "observed": r.Brief()})
		}
	} else {
		c.Skip("raw body swallows or contains the end tag under the reference tokenizer")
	}
	if bodyAdmitted("{% comment %}", b, "{% endcomment %}", "endcomment") {
		src := pre + "{% comment %}" + b + "{% endcomment %}" + post
		before := c05Probe.Load()
		r := core.Run(e, src, nil)
		c.Eval(1)
		c.Obs("comment_bodies", 1)
		if !r.OK() || r.Out != expPre+expPost {
			c.Violate("comment|"+resClass(r), "a comment block contributed output or was evaluated",
				map[string]any{"source": src, "body": b, "observed": r.Brief()})
		}
		if c05Probe.Load() != before {
			c.Violate("comment|evaluated", "a tag inside a comment body was executed", map[string]any{"source": src})
		}
	} else {
		c.Skip("comment body swallows or contains the end tag under the reference tokenizer")
	}
	// several opaque blocks in one template: each keeps to itself
	seq := "<{% raw %}" + b + "{% endraw %}|{% comment %}" + b + "{% endcomment %}|{% raw %}R2{% endraw %}{% comment %}C2{% endcomment %}{% raw %}" + b + "{% endraw %}>"
	if i%4 == 0 && seqAdmitted(seq, []string{"T:<", "raw:" + b, "T:|", "comment:" + b, "T:|", "raw:R2", "comment:C2", "raw:" + b, "T:>"}) {
		src := seq
		r := core.Run(e, src, nil)
		c.Eval(1)
		c.Obs("raw_comment_sequences", 1)
		if want := "<" + b + "||R2" + b + ">"; !r.OK() || r.Out != want {
			c.Violate("raw-comment-sequence|"+resClass(r), "raw and comment blocks following each other do not keep to themselves (raw body verbatim, comment body nothing)",
				map[string]any{"source": src, "body": b, "expected": want, "observed": r.Brief()})
		}
	}
}

func c05Value(c *core.Ctx, e *liquid.Engine, v string, i int) {
	check := func(form, src string, b map[string]any) {
		r := core.Run(e, src, b)
		c.Eval(1)
		c.Obs("string_values_printed", 1)
		if !r.OK() || r.Out != v {
			c.Violate("value|"+form+"|"+resClass(r), "a string value printed by an object was not emitted exactly",
				map[string]any{"source": src, "value": v, "form": form, "observed": r.Brief()})
		}
	}
	switch i % 5 {
	case 0:
		check("variable", "{{ v }}", map[string]any{"v": v})
	case 1:
		check("bytes", "{{v}}", map[string]any{"v": []byte(v)})
	case 2:
		check("assigned", "{% assign x = v %}{{ x }}", map[string]any{"v": v})
	case 3:
		check("captured", "{% capture x %}{{ v }}{% endcapture %}{{ x }}", map[string]any{"v": v})
	case 4:
		check("nested", "{{ m.k[0] }}", map[string]any{"m": map[string]any{"k": []any{v}}})
	}
	// next to a neighbour's whitespace-control marker: markers act on literal text, a value is emitted exactly
	switch (i / 5) % 4 {
	case 0:
		check("after-right-trim", "{{ e -}}{{ v }}", map[string]any{"v": v, "e": ""})
	case 1:
		check("before-left-trim", "{{ v }}{{- e }}", map[string]any{"v": v, "e": ""})
	case 2:
		check("between-trimming-tags", "{%- if t -%}{{ v }}{%- endif -%}", map[string]any{"v": v, "t": true})
	case 3:
		check("in-trimmed-loop", "{% for x in one -%}{{ v }}{%- endfor %}{%- assign q = 1 -%}", map[string]any{"v": v, "one": []any{1}})
	}
	// literal spelling, when the value can be quoted and the object still tokenises as one object
	for _, q := range []string{`"`, `'`} {
		if strings.Contains(v, q) {
			continue
		}
		src := "{{ " + q + v + q + " }}"
		toks := ref.Tokens(src, ref.DefaultDelims)
		if len(toks) == 1 && toks[0].Kind == ref.Obj && toks[0].Args == q+v+q {
			check("literal", src, nil)
		}
		break
	}
}

// c05Disturb renders unrelated templates that end in a pending right-trim or fail part-way: state they
// leave behind (pooled writers, flags) must not touch the text of the next render.
func c05Disturb(e *liquid.Engine, i int) {
	srcs := []string{"z {{ 'v' -}}", "{%- assign q = 1 -%}", "x {{- 1 -}}  ", "partial {{ 'out' }}{{ 1 | divided_by: 0 }}", "{% raw -%} r {%- endraw -%}", "a{% comment -%}c{%- endcomment -%}"}
	core.Run(e, srcs[i%len(srcs)], nil)
}

// c05NextToTrim: a hyphen may only remove whitespace; text that ends (or begins) in a non-whitespace
// character next to a trim marker reaches the output unchanged, byte for byte.
func c05NextToTrim(c *core.Ctx, e *liquid.Engine, text string) {
	t := strings.TrimFunc(text, unicode.IsSpace)
	if t == "" || strings.ContainsAny(t, "{}%") || !utf8.ValidString(t) { // delimiter characters could fuse with the neighbouring tag
		return
	}
	for k, form := range []string{t + "{{- 1 -}}" + t, t + "{%- assign q = 1 -%}" + t, "{% raw %}" + t + "{% endraw %}{{- 2 -}}{% raw %}" + t + "{% endraw %}", "{{ v }}{{- 3 -}}{{ v }}"} {
		want := t + []string{"1", "", "2", "3"}[k] + t
		if k == 2 && !bodyAdmitted("{% raw %}", t, "{% endraw %}", "endraw") {
			continue
		}
		r := core.Run(e, form, map[string]any{"v": t})
		c.Eval(1)
		c.Obs("text_next_to_trim_marker", 1)
		if !r.OK() || r.Out != want {
			c.Violate("next-to-trim|"+resClass(r), "non-whitespace text next to a whitespace-control hyphen was changed", map[string]any{"source": form, "text": fmt.Sprintf("%q", t), "expected": want, "observed": r.Brief()})
		}
	}
}

func runC05(c *core.Ctx) {
	e := liquid.NewEngine()
	e.RegisterTag("vprobe", func(render.Context) (string, error) { c05Probe.Add(1); return "PROBED", nil })
	nAll := gen.CountStrings(len(c05Alpha), c.Pick(6, 8))
	nBody := gen.CountStrings(len(c05Alpha), c.Pick(5, 6))
	for i := 0; i < nAll; i++ {
		if !c.Mine(i) {
			continue
		}
		s := gen.NthString(c05Alpha, i)
		if !c.Begin("exhaustive:" + s) {
			continue
		}
		c05ScanLaw(c, s, []int{0, 1, 1000}[i%3])
		if i%5 == 0 {
			c05Disturb(e, i/5)
		}
		if !ref.HasOpen(s) {
			c05Plain(c, e, s)
		}
		if i < nBody {
			c05Body(c, e, s, i)
			c05Value(c, e, s, i)
		}
		if nontrivialStr(s) {
			c.Distinct("x", s)
		}
		if i%50021 == 7 {
			c.Sample(map[string]any{"law": "scan partition+line; identity when nothing opens; raw/comment body; printed value", "string": s})
		}
	}
	// bodies with tag-like content that must stay inert
	inert := []string{"{% if %}", "{% endif %}", "{{ 1 | nosuchfilter }}", "{% nosuchtag %}", "{% vprobe %}", "{{ \"unterminated }}", "{%- endfor -%}",
		"{% for x in %}", "{{- a -}}", "{% raw %}", "{% comment %}", "{% else %}", "{{ }}", "{% assign x = %}", "{% include 3 %}", "{% endcase %}"}
	for i := 0; i < c.Pick(3000, 60000); i++ {
		if !c.Mine(i) {
			continue
		}
		r := c.Rand(i, 1)
		var sb strings.Builder
		for k := r.Range(1, 5); k > 0; k-- {
			if r.Bool() {
				sb.WriteString(inert[r.Intn(len(inert))])
			} else {
				sb.WriteString(gen.NthString(c05Alpha, r.Intn(600)))
			}
		}
		b := sb.String()
		if !c.Begin("inert-body:" + b) {
			continue
		}
		c05Body(c, e, b, i)
		c.Distinct("b", b)
		if i%997 == 3 {
			c.Sample(map[string]any{"law": "raw body verbatim / comment body inert", "body": b})
		}
	}
	// random bytes and valid UTF-8
	for i := 0; i < c.Pick(20000, 300000); i++ {
		if !c.Mine(i) {
			continue
		}
		r := c.Rand(i, 2)
		n := gen.RandLen(r)
		var s string
		utf := r.Bool()
		if utf {
			s = gen.RandUTF8(r, n)
		} else {
			s = gen.RandBytes(r, n)
		}
		if !c.Begin(fmt.Sprintf("random:%q", core.Trunc(s, 2000))) {
			continue
		}
		c05ScanLaw(c, s, []int{0, 1, 1000}[i%3])
		if i%3 == 0 {
			c05Disturb(e, i/3)
		}
		c05Plain(c, e, gen.NoOpen(s))
		if utf && len(s) < 400 {
			c05NextToTrim(c, e, s)
		}
		if len(s) < 2000 {
			c05Body(c, e, s, i)
		}
		if utf || i%5 == 1 { // a Go string prints as its bytes; []byte likewise
			c05Value(c, e, s, i)
		}
		c.ObsMax("max:longest_string_bytes", int64(len(s)))
		c.Distinct("r", s)
		if i%4999 == 11 {
			c.Sample(map[string]any{"law": "random bytes/UTF-8", "len": len(s), "head": core.Trunc(fmt.Sprintf("%q", s), 120)})
		}
	}
}

// seqAdmitted: does src tokenise (reference tokenizer) into exactly the given
// sequence of outside texts and opaque blocks with these bodies?
func seqAdmitted(src string, want []string) bool {
	var got []string
	open, body := "", ""
	for _, t := range ref.Tokens(src, ref.DefaultDelims) {
		switch {
		case open != "":
			if t.Kind == ref.Tag && t.Name == "end"+open {
				got = append(got, open+":"+body)
				open, body = "", ""
			} else {
				body += t.Src
			}
		case t.Kind == ref.Tag && (t.Name == "raw" || t.Name == "comment") && t.Args == "" && !t.TrimL && !t.TrimR:
			open = t.Name
		case t.Kind == ref.Text:
			got = append(got, "T:"+t.Src)
		default:
			return false
		}
	}
	if open != "" || len(got) != len(want) {
		return false
	}
	for i := range got {
		if got[i] != want[i] {
			return false
		}
	}
	return true
}
