package props

import (
	"math"
	"bytes"
	"fmt"
	"os"
	"os/exec"
	"path/filepath"
	"sort"
	"strconv"
	"strings"
	"time"

	"github.com/osteele/liquid"
	yaml "gopkg.in/yaml.v2"

	"verif/harness/core"
	"verif/harness/gen"
)

func init() {
	core.Register(&core.Prop{
		ID:         "C02",
		Level:      "exploration",
		BlockingOK: true, // the worker waits for its child processes
		Rule: "generated templates biased to what consumes maps (for/tablerow over maps of 2..12 entries with offset/limit/reversed, map-to-array filters first/last/join/sort/map/reverse/uniq/size/concat/compact, printing of maps, IterationKeyedMap, yaml.MapSlice, nested maps, maps inside Drops) plus general generated programs and application tags that write variables (Context.Set, and through the map Context.Bindings returns); for every case ALL of these must give byte-identical output (or the same error text, line and path): 30 renders of one parsed template, 10 fresh parses, 5 fresh engines, the six entry points Render / RenderString / FRender / ParseAndRender / ParseAndRenderString / ParseAndFRender (every fourth case also re-spelled with custom delimiters on engines configured with them), 6 rebuilds of the binding maps in PRNG-permuted insertion order with different capacities, and two fresh child processes re-rendering every case of the shard, the second one in the opposite order; plus a date family: date strings written in 16 layouts x 9 zone spellings, each rendered through the date filter and through comparisons after different histories of other date strings (what was parsed earlier in the process must not matter); plus the cmd/liquid binary (stdin and FILE argument, --env under env -i, with and without --strict) against the library. Non-trivial = the template consumes a map with >= 2 entries; distinct = distinct (template, logical bindings).",
		Exhaustive: func(string) bool { return false },
		Assumptions: []string{
			"the map/program templates never use date/now and children run with TZ=UTC (the property exempts clock and time zone); the date family parses fixed date strings (never now) and is compared within one process only, where the time zone is one",
			"which order maps iterate in is not asserted, only that it is one order",
			"rebuilds keep the Go representation and change only construction order, capacity and (for the typed containers of pointers) the pointees' addresses; containers of pointers are also spelled by json, inspect and conversion error messages; a Go struct that itself has pointer FIELDS and is printed whole can show addresses and is not covered (the universe speaks of structs with data fields)",
		},
		MinEvents: map[string]int64{"executions_compared": 50000, "cross_process_cases": 200},
		Run:       runC02,
	})
}

type c02case struct {
	src string
	env gen.Env
	// extra bindings that are not plain logical values
	keyed   map[string]any // -> liquid.IterationKeyedMap
	ordered yaml.MapSlice
	mapUse  bool
}

func c02Gen(r *core.Rand, i int) c02case {
	n := r.Range(2, 12)
	m := gen.Map()
	for _, j := range r.Perm(26)[:n] {
		k := string(rune('a'+j)) + fmt.Sprint(r.Intn(3))
		if r.P(1, 3) {
			k = strings.ToUpper(k) // keys that differ only in case must still have one order
		}
		var v gen.V
		switch r.Intn(4) {
		case 0:
			v = gen.Int(int64(r.Range(-3, 9)))
		case 1:
			v = gen.Str([]string{"x", "yy", "Zed", ""}[r.Intn(4)])
		case 2:
			v = gen.Map(gen.KV{K: "x", V: gen.Int(int64(j))}, gen.KV{K: "y", V: gen.Str("in")})
		default:
			v = gen.Ints(int64(j), 1)
		}
		m.M = append(m.M, gen.KV{K: k, V: v})
	}
	// pairs of keys differing only in case (and in nothing else)
	m.M = append(m.M, gen.KV{K: "kk", V: gen.Int(1)}, gen.KV{K: "KK", V: gen.Int(2)}, gen.KV{K: "Kk", V: gen.Str("mixed")})
	flat := gen.Map()
	for _, kv := range m.M {
		if kv.V.K == gen.KInt || kv.V.K == gen.KStr {
			flat.M = append(flat.M, kv)
		}
	}
	for len(flat.M) < 2 {
		flat.M = append(flat.M, gen.KV{K: fmt.Sprintf("pad%d", len(flat.M)), V: gen.Int(int64(len(flat.M)))})
	}
	env := gen.StdEnv(r)
	env = append(env, gen.KV{K: "big", V: m}, gen.KV{K: "flat", V: flat}, gen.KV{K: "outer", V: gen.Map(gen.KV{K: "inner", V: flat}, gen.KV{K: "other", V: m})},
		gen.KV{K: "maps", V: gen.Arr(flat, m)})
	tpls := []string{
		"{% for kv in big %}{{ kv[0] }}={{ kv[1] }};{% endfor %}",
		"{% for kv in big reversed offset: 1 limit: 3 %}{{ forloop.index }}:{{ kv[0] }};{% endfor %}",
		"{% tablerow kv in flat cols: 3 %}{{ kv[0] }}{{ kv[1] }}{% endtablerow %}",
		"{{ flat | first }}|{{ flat | last }}|{{ big | size }}",
		"{{ flat | join: ',' }}", "{{ flat | sort | join: ',' }}", "{{ flat | reverse | join: ',' }}", "{{ flat | uniq | join: ',' }}", "{{ flat | compact | join: ',' }}",
		"{{ flat | concat: flat | join: ',' }}", "{{ big | map: 'x' | join: ',' }}", "{{ flat | sort_natural | join: ' ' }}", "{{ big }}", "{{ outer }}", "{{ maps }}",
		"{% for kv in outer.inner %}{{ kv | join: '=' }} {% endfor %}", "{% for mm in maps %}{% for kv in mm %}{{ kv[0] }},{% endfor %}|{% endfor %}",
		"{% for k in keyed %}{{ k }}={{ keyed[k] }};{% endfor %}", "{% for kv in ordered %}{{ kv[0] }}={{ kv[1] }};{% endfor %}{{ ordered.size }}",
		"{% assign arr2 = flat | sort %}{{ arr2 | first }}{{ arr2 | last }}", "{% for kv in big %}{% if forloop.first %}{{ kv[0] }}{% endif %}{% endfor %}",
		"{% for kv in flat %}{% cycle 'a', 'b' %}{{ kv[1] }}{% endfor %}", "{% capture c %}{% for kv in flat %}{{ kv[0] }}{% endfor %}{% endcapture %}{{ c | upcase }}",
		"{{ flat | first | first }}{{ big | last | last }}", "{% for kv in dm %}{{ kv[0] }}{% endfor %}{{ dm | join: '+' }}",
		"{% if flat contains 'pad0' %}T{% endif %}{{ flat.size }}{% case big.size %}{% when 2 %}two{% else %}many{% endcase %}",
		// arrays: what a filter does to its input must not show in a later render
		"{{ arr | join: ',' }}|{{ arr | sort | join: ',' }}|{{ sarr | first }}{{ sarr | sort | first }}{{ sarr | sort_natural | last }}",
		"{{ mixed | compact | size }}{{ mixed | size }}{{ arr | reverse | first }}{{ arr | first }}{{ arr | uniq | size }}{{ arr | size }}",
		// maps with interface keys: string keys, then non-string keys of several kinds, numerically equal keys of different types
		"{% for kv in anys %}{{ kv[0] }}={{ kv[1] }};{% endfor %}|{% for kv in anyn %}{{ kv[0] }}={{ kv[1] }};{% endfor %}|{% for kv in anye %}{{ kv[1] }};{% endfor %}",
		"{% for kv in anyt %}{{ kv[1] }};{% endfor %}|{{ anyt | join: ',' }}|{{ anyt | first | last }}|{% tablerow kv in anyt cols: 3 %}{{ kv[1] }}{% endtablerow %}",
		// properties that are methods or tagged fields; each template touches ONE of the struct bindings, so that which
		// representation a process sees first depends on the order of the cases
		"{{ msv.Title }}|{{ msv.Upper }}|{{ msv.Slug }}", "{{ msp.Title }}|{{ msp.Upper }}|{{ msp.Slug }}", "{{ ta.label }}:{{ ta.cost }}:{{ ta.Sku }}", "{{ tb.label }}:{{ tb.cost }}:{{ tb.Sku }}",
		// typed containers of pointers written out whole
		"{{ pm }}|{{ ps | join: ',' }}|{{ ps }}|{{ pps }}|{{ mps }}", "{{ 'x' | append: ps }}|{{ pm | join: '+' }}|{{ mps.k | join: ',' }}|{{ pps | first | join: ',' }}|{{ pm.a }}{{ pst.s.Name }}{{ pps[1][0] }}",
		// ... and spelled by json and inspect, and by the error messages of conversions that they cannot undergo
		"{{ pm | json }}|{{ ps | json }}|{{ pps | inspect }}|{{ mps | json }}|{{ pst | json }}", "{{ ps | plus: 1 }}", "{% include pps %}", "{% for x in (1..pm) %}{% endfor %}", "{{ 'abc' | slice: mps }}", "{{ 1 | divided_by: ps }}",
		// output that is not valid UTF-8 (a string value is emitted exactly; url_decode yields whatever bytes its input spells): the same bytes from every entry point
		"{{ badutf }}|{{ '%ff%c3%28%f0%9f' | url_decode }}|{{ badutf | append: 'x' | size }}|{{ badutf | upcase }}", "{% capture c %}{{ '%e9' | url_decode }}{% endcapture %}[{{ c }}]{{ badutf | slice: 0, 2 }}",
		// a map with a NaN key among ordinary ones (the NaN entry is left out, the others keep their order); fixed arrays of pointers
		"{% for kv in nanmap %}{{ kv[0] }}={{ kv[1] }};{% endfor %}|{{ nanmap | join: ',' }}|{{ nanmap | first }}{{ nanmap | last }}|{% tablerow kv in nanany %}{{ kv[1] }}{% endtablerow %}", "{{ pa }}|{{ mpa }}|{{ 'x' | append: pa }}|{{ mpa | json }}|{{ pa | join: '+' }}|{{ mpa.k | first }}",
		// tag-like text in a raw body: where it ends is the same on every engine, whichever other engines scanned before
		"{% raw %}{%a {% endraw %}|{% comment %}{{x {% endcomment %}|{% raw %}{{ {% endraw %} }}",
		// application tags that write: what they write belongs to one render
		"{% xbump hits %}{% xbump hits %}hits={{ hits }} {% xbump n %}n={{ n }}{% xset seen = hits %}{{ seen }}", "{% for kv in flat %}{% xbump count %}{% endfor %}{{ count }}{% xbump flat %}{{ flat }}",
		"{{ anyn | join: ',' }}|{{ anys | first | last }}|{% tablerow kv in anye %}{{ kv[1] }}{% endtablerow %}|{{ bigkeys | join: ',' }}|{% for kv in bigkeys %}{{ kv[0] }};{% endfor %}",
	}
	cs := c02case{env: env, mapUse: true}
	if i%3 == 2 {
		f := gen.FullFeatures()
		f.MapLoops = true
		f.Errors = i%9 == 2
		g := gen.NewG(r, f, env)
		cs.src = gen.DefaultStyle.Source(g.Program())
		cs.mapUse = strings.Contains(cs.src, " in m ") || strings.Contains(cs.src, " in em ") || strings.Contains(cs.src, "m |")
	} else {
		cs.src = tpls[r.Intn(len(tpls))]
		if r.P(1, 4) {
			cs.src += tpls[r.Intn(len(tpls))]
		}
	}
	cs.keyed = map[string]any{}
	for _, kv := range flat.M {
		cs.keyed[kv.K] = gen.Canon(kv.V)
		cs.ordered = append(cs.ordered, yaml.MapItem{Key: kv.K, Value: gen.Canon(kv.V)})
	}
	return cs
}

// c02Engine: a default engine plus the application tags of custom.go.
func c02Engine() *liquid.Engine {
	e := liquid.NewEngine()
	RegisterCustom(e)
	return e
}

// bind builds the Go bindings; every call constructs fresh maps in a PRNG-permuted order.
func (cs c02case) bind(r *core.Rand) map[string]any {
	// the same representation every time (which representation is used is C18's business); only the
	// construction order and capacity of the maps change
	b := gen.RealiseEnv(cs.env, r, gen.Rep{})
	km := make(map[string]any, r.Intn(32))
	keys := make([]string, 0, len(cs.keyed))
	for k := range cs.keyed {
		keys = append(keys, k)
	}
	sort.Strings(keys)
	for _, j := range r.Perm(len(keys)) {
		km[keys[j]] = cs.keyed[keys[j]]
	}
	b["keyed"] = liquid.IterationKeyedMap(km)
	b["ordered"] = cs.ordered
	// interface-keyed and large-integer-keyed maps, rebuilt in a PRNG order as well
	anys, anyn, anye, bigkeys := make(map[any]any), make(map[any]any), make(map[any]any), make(map[int64]string)
	type ent struct{ k, v any }
	ents := []struct {
		m  map[any]any
		es []ent
	}{
		{anys, []ent{{"b", 1}, {"a", 2}, {"C", 3}, {"c", 4}}},
		{anyn, []ent{{3, "three"}, {1, "one"}, {2, "two"}, {true, "yes"}, {2.5, "f"}, {"s", "str"}, {false, "no"}, {10, "ten"}}},
		{anye, []ent{{1, "int"}, {int8(1), "int8"}, {uint(1), "uint"}, {1.0, "float"}, {int64(1), "int64"}}},
	}
	for _, e := range ents {
		for _, j := range r.Perm(len(e.es)) {
			e.m[e.es[j].k] = e.es[j].v
		}
	}
	for _, j := range r.Perm(8) {
		bigkeys[int64(1)<<60+int64(j)] = fmt.Sprintf("v%d", j)
	}
	b["anys"], b["anyn"], b["anye"], b["bigkeys"] = anys, anyn, anye, bigkeys
	// distinct keys that are equal in value and differ only in Go type
	anyt := map[any]any{}
	tk := []struct{ k, v any }{{"a", 1}, {gen.NTitle("a"), 2}, {1, "int"}, {gen.NInt(1), "nint"}, {int64(1), "i64"}, {true, "t"}, {gen.NBool(true), "nt"}, {2.5, "f"}, {gen.NFloat(2.5), "nf"}}
	for _, j := range r.Perm(len(tk)) {
		anyt[tk[j].k] = tk[j].v
	}
	b["anyt"] = anyt
	// typed containers of pointers: freshly allocated on every rebuild, so an address in the output shows at once
	pi := func(i int) *int { return &i }
	ps := func(s string) *string { return &s }
	b["badutf"] = "ok\xff\xc3(\xf0\x9f end"
	nanmap, nanany := map[float64]string{math.NaN(): "nan"}, map[any]any{math.NaN(): "nan", float32(math.NaN()): "nan32"}
	for _, j := range r.Perm(9) {
		nanmap[float64(j)+0.5] = fmt.Sprint("v", j)
		nanany[j] = fmt.Sprint("w", j)
	}
	b["nanmap"], b["nanany"] = nanmap, nanany
	b["pa"], b["mpa"] = [2]*int{pi(4), pi(5)}, map[string][2]*string{"k": {ps("p"), ps("q")}}
	b["pm"] = map[string]*int{"a": pi(1), "b": pi(2), "n": nil}
	b["ps"] = []*string{ps("x"), ps("y")}
	b["pps"] = [][]*int{{pi(1), pi(2)}, {pi(3)}}
	b["mps"] = map[string][]*string{"k": {ps("v"), ps("w")}}
	b["pst"] = map[string]*gen.DataStruct{"s": {Name: "nm", Count: 2}}
	// one struct type by value and by pointer (different method sets), two struct types with liquid tags
	b["msv"], b["msp"] = gen.MethodStruct{Title: "Hello World"}, &gen.MethodStruct{Title: "Other Title"}
	b["ta"], b["tb"] = gen.TaggedA{Name: "lamp", Price: 5, Sku: "SKU-1"}, &gen.TaggedB{Email: "ada@example.org", Full: "Ada", Sku: 7}
	flat, _ := cs.env.Lookup("flat")
	b["dm"] = gen.DropV{X: gen.Realise(flat, r, gen.Rep{}, true)}
	return b
}

func runC02(c *core.Ctx) {
	child := os.Getenv("VCHECK_C02_CHILD") == "1"
	n := c.Pick(20000, 300000)
	digest := &bytes.Buffer{}
	e := c02Engine()
	// the second child process walks the cases in the opposite order: whatever the process remembers from earlier
	// renders (per-type tables, layout hints, pools) is then built up in another order than in the parent
	reverse := child && os.Getenv("VCHECK_C02_REVERSE") == "1"
	var lines []string
	for step := 0; step < n; step++ {
		i := step
		if reverse {
			i = n - 1 - step
		}
		if !c.Mine(i) {
			continue
		}
		cs := c02Gen(c.Rand(i), i)
		if !c.Begin("case:" + cs.src + " env=" + cs.env.String()) {
			continue
		}
		b0 := cs.bind(c.Rand(i, 1))
		tpl, pr := core.ParsePlain(e, cs.src)
		var base core.Res
		if !pr.OK() {
			base = pr
		} else {
			base = core.Render(tpl, b0)
		}
		lines = append(lines, fmt.Sprintf("%09d\t%x", i, core.HashString(base.Brief())))
		if child {
			c.Eval(1)
			continue
		}
		type obs struct {
			how string
			r   core.Res
		}
		var all []obs
		add := func(how string, r core.Res) { all = append(all, obs{how, r}) }
		add("first render", base)
		if pr.OK() {
			for k := 0; k < 30; k++ {
				add(fmt.Sprintf("repeat render %d of one Template", k), core.Render(tpl, b0))
			}
		}
		for k := 0; k < 10; k++ {
			if k%3 == 1 {
				c02Disturb(e, k) // earlier activity (including failing renders) must not matter
			}
			add(fmt.Sprintf("fresh parse %d", k), core.Run(e, cs.src, b0))
		}
		for k := 0; k < 5; k++ {
			add(fmt.Sprintf("fresh engine %d", k), core.Run(c02Engine(), cs.src, b0))
		}
		if pr.OK() {
			add("RenderString", core.RenderString(tpl, b0))
			add("FRender", core.FRender(tpl, nil, b0))
		}
		if i%4 == 1 {
			// the same template written with custom delimiters, on engines configured with them: every entry point again
			d := [4]string{"<<", ">>", "<%", "%>"}
			if rs, toks := respell(cs.src, d); sameTokens(toks, c19Tokens(rs, d)) {
				mk := func() *liquid.Engine { return c02Engine().Delims(d[0], d[1], d[2], d[3]) }
				ce := mk()
				var custom []obs
				cadd := func(how string, r core.Res) { custom = append(custom, obs{how + " (custom delimiters)", r}) }
				cadd("Run", core.Run(ce, rs, b0))
				cadd("ParseAndRender", core.ParseAndRender(ce, rs, b0))
				cadd("ParseAndRenderString", core.ParseAndRenderString(ce, rs, b0))
				cadd("ParseAndFRender", core.ParseAndFRender(ce, nil, rs, b0))
				cadd("fresh engine ParseAndRenderString", core.ParseAndRenderString(mk(), rs, b0))
				if t2, p2 := core.ParsePlain(ce, rs); p2.OK() {
					cadd("RenderString", core.RenderString(t2, b0))
					cadd("FRender", core.FRender(t2, nil, b0))
				}
				c.Eval(len(custom))
				c.Obs("executions_compared", int64(len(custom)))
				c.Obs("custom_delimiter_cases", 1)
				for _, o := range custom[1:] {
					if !o.r.Same(custom[0].r) {
						c.Violate("nondeterministic|custom-delimiters|"+c18Feature(cs.src), "on an engine configured with custom delimiters the entry points disagree about the same template and bindings",
							map[string]any{"source": rs, "bindings": core.Trunc(cs.env.String(), 600), custom[0].how: custom[0].r.Brief(), o.how: o.r.Brief()})
						break
					}
				}
			}
		}
		add("ParseAndRender", core.ParseAndRender(e, cs.src, b0))
		add("ParseAndRenderString", core.ParseAndRenderString(e, cs.src, b0))
		add("ParseAndFRender", core.ParseAndFRender(e, nil, cs.src, b0))
		for k := 0; k < 6; k++ {
			add(fmt.Sprintf("bindings rebuilt in another insertion order (%d)", k), core.Run(e, cs.src, cs.bind(c.Rand(i, uint64(k)+2))))
		}
		c.Eval(len(all))
		c.Obs("executions_compared", int64(len(all)))
		if cs.mapUse {
			c.Distinct(cs.src, cs.env.String())
		}
		distinct := map[string]string{}
		for _, o := range all {
			k := o.r.Brief()
			if _, ok := distinct[k]; !ok {
				distinct[k] = o.how
			}
		}
		if len(distinct) > 1 {
			var ds []string
			for k, how := range distinct {
				ds = append(ds, how+" => "+core.Trunc(k, 300))
			}
			sort.Strings(ds)
			if len(ds) > 6 {
				ds = ds[:6]
			}
			c.Violate("nondeterministic|"+c18Feature(cs.src), "the same template, bindings and configuration rendered differently across repeats / parses / engines / entry points / map construction orders",
				map[string]any{"source": cs.src, "bindings": core.Trunc(cs.env.String(), 600), "distinct_results": len(distinct), "results": ds})
		}
		if i%1009 == 1 {
			c.Sample(map[string]any{"source": cs.src, "executions": len(all), "result": core.Trunc(base.Brief(), 200)})
		}
	}
	sort.Strings(lines) // by case number, whatever the order of execution was
	for _, l := range lines {
		digest.WriteString(l + "\n")
	}
	if child {
		os.WriteFile(filepath.Join(c.WorkDir, fmt.Sprintf("c02-child-%02d.digest", c.Shard)), digest.Bytes(), 0o644)
		return
	}
	c02Dates(c)
	// ---- fresh child process: every case of this shard again --------------------------------------
	for gen := 0; gen < 2; gen++ {
		sub := filepath.Join(c.WorkDir, fmt.Sprintf("c02-sub-%02d-%d", c.Shard, gen))
		os.MkdirAll(sub, 0o755)
		cmd := exec.Command(os.Args[0], "--worker", "C02", c.Tier, fmt.Sprint(c.Seed), fmt.Sprint(c.Shard), fmt.Sprint(c.NShards), sub, "0", ",")
		cmd.Env = append(os.Environ(), "VCHECK_C02_CHILD=1", "TZ=UTC", fmt.Sprintf("VCHECK_C02_REVERSE=%d", gen))
		out, err := cmd.CombinedOutput()
		got, rerr := os.ReadFile(filepath.Join(sub, fmt.Sprintf("c02-child-%02d.digest", c.Shard)))
		os.RemoveAll(sub)
		if err != nil || rerr != nil {
			c.Obs("cross_process_child_failed", 1)
			fmt.Fprintf(os.Stderr, "c02 child failed: %v %v %s\n", err, rerr, core.Trunc(string(out), 500))
			continue
		}
		want := strings.Split(digest.String(), "\n")
		have := strings.Split(string(got), "\n")
		c.Obs("cross_process_cases", int64(len(want)))
		for k := 0; k < len(want) && k < len(have); k++ {
			if want[k] != have[k] {
				idx, _ := strconv.Atoi(strings.TrimLeft(strings.SplitN(want[k], "\t", 2)[0], "0"))
				cs := c02Gen(c.Rand(idx), idx)
				c.Violate("cross-process|"+c18Feature(cs.src), "a fresh process rendered the same template and bindings differently",
					map[string]any{"source": cs.src, "bindings": core.Trunc(cs.env.String(), 600), "parent_digest": want[k], "child_digest": have[k], "child_order": []string{"same as the parent", "reversed"}[gen]})
				break
			}
		}
		if len(want) != len(have) {
			c.Violate("cross-process|case-count", "the child process did not reproduce the case list", map[string]any{"parent": len(want), "child": len(have)})
		}
	}
	c02CLI(c)
	c02LateStrict(c)
}

// c02LateStrict: an engine has one configuration at any time. StrictVariables called after a template was parsed
// changes that configuration; from then on every entry point - Render, RenderString and FRender of the template
// parsed earlier as much as a fresh parse - renders the source under it, so they all agree.
func c02LateStrict(c *core.Ctx) {
	if c.Shard != 2%c.NShards || !c.Begin("late-strict family") {
		return
	}
	srcs := []string{"a={{ a }};[{{ missing }}]", "{% if missing %}x{% else %}y{% endif %}|{{ a }}", "{{ a | plus: 1 }}{% for x in missing %}{{ x }}{% endfor %}|{{ missing | default: 'd' }}",
		"line1\n{% if a %}\n  {{ missing.k }}{% endif %}", "{{ a }}", "{% assign m = missing %}[{{ m }}]", "{% include 'late-strict-part.html' %}"}
	b := map[string]any{"a": 1}
	for _, src := range srcs {
		e := liquid.NewEngine()
		core.ParseCache(e, "[part {{ missing }}]", "late-strict-part.html", 1)
		tpl, pr := core.ParsePlain(e, src)
		if !pr.OK() {
			continue
		}
		lax := core.Render(tpl, b)
		e.StrictVariables()
		type obs struct {
			how string
			r   core.Res
		}
		all := []obs{{"Render of the template parsed before StrictVariables", core.Render(tpl, b)}, {"RenderString of it", core.RenderString(tpl, b)}, {"FRender of it", core.FRender(tpl, nil, b)},
			{"ParseAndRender", core.ParseAndRender(e, src, b)}, {"ParseAndRenderString", core.ParseAndRenderString(e, src, b)}, {"ParseAndFRender", core.ParseAndFRender(e, nil, src, b)}}
		strict := liquid.NewEngine()
		strict.StrictVariables()
		core.ParseCache(strict, "[part {{ missing }}]", "late-strict-part.html", 1)
		all = append(all, obs{"an engine that was strict from the start", core.Run(strict, src, b)})
		c.Eval(len(all) + 1)
		c.Obs("late_strict_cases", 1)
		c.Distinct("late-strict", src)
		for _, o := range all[1:] {
			if !o.r.Same(all[0].r) || o.r.Panic != "" {
				var lines []string
				for _, x := range all {
					lines = append(lines, x.how+" => "+x.r.Brief())
				}
				c.Violate("nondeterministic|late-strict", "after StrictVariables the entry points disagree about the same source and bindings on one engine (a template parsed earlier renders under another configuration than a fresh parse)",
					map[string]any{"source": src, "before_StrictVariables": lax.Brief(), "results": lines})
				break
			}
		}
	}
}

// c02Disturb performs unrelated renders, some of which fail part-way inside loops.
func c02Disturb(e *liquid.Engine, k int) {
	srcs := []string{
		"{% for i in (1..4) %}{% cycle 'a', 'b', 'c' %}{% if forloop.index == 2 %}{{ 1 | divided_by: 0 }}{% endif %}{% endfor %}",
		"{% assign leak = 'x' %}{% capture cap %}y{% endcapture %}{% for i in (1..2) %}{% cycle 'g': 'p', 'q', 'r' %}{{ i | nosuchfilter }}{% endfor %}",
		"{% tablerow i in (1..3) cols: 2 %}{% cycle '1', '2' %}{% if forloop.last %}{{ 'x' | plus: 1 }}{% endif %}{% endtablerow %}",
		"{% for i in (1..5) %}{% cycle 'a', 'b' %}{% if i == 3 %}{% break %}{% endif %}{% endfor %}",
	}
	core.Run(e, srcs[k%len(srcs)], map[string]any{})
	core.Run(liquid.NewEngine(), srcs[(k+1)%len(srcs)], map[string]any{})
}

// c02CLI compares the cmd/liquid binary with the library.
func c02CLI(c *core.Ctx) {
	bin := os.Getenv("VCHECK_LIQUID_BIN")
	if _, err := os.Stat(bin); err != nil {
		c.Obs("cli_binary_missing", 1)
		return
	}
	n := c.Pick(320, 3200)
	dir := filepath.Join(c.WorkDir, fmt.Sprintf("c02-cli-%02d", c.Shard))
	os.MkdirAll(dir, 0o755)
	defer os.RemoveAll(dir)
	for i := 0; i < n; i++ {
		if !c.Mine(i) {
			continue
		}
		r := c.Rand(i, 77)
		envs := map[string]string{"NAME": []string{"world", "a b", "", "héllo"}[r.Intn(4)], "N": fmt.Sprint(r.Range(0, 9)), "LIST": "a,b,c"}
		tpls := []string{"Hello {{ NAME }}!", "{{ NAME | upcase | append: N }}", "{% assign parts = LIST | split: ',' %}{% for p in parts reversed %}{{ p }}{% endfor %}",
			"{% if NAME == 'world' %}w{% else %}o{% endif %}{{ N | plus: 1 }}", "{{ UNDEFINED_VAR }}x", "{{ NAME | nosuchfilter }}", "{% if %}", "plain text\nline two\n",
			"{{ N | divided_by: 0 }}", "{% for i in (1..3) %}{{ i }}{{ NAME }}{% endfor %}", "{{ 'a' | append: LIST | size }}",
			// output that a formatting function would misread
			"50% off for {{ NAME }}: 100%d %s %v %%", "{{ NAME | url_encode }}|{{ 'a b&c=d' | url_encode }}", "{% raw %}{% if x %}{{ y }}{% endraw %} %!(EXTRA)", "tab\there \\n\x00{{ N }}%"}
		src := tpls[r.Intn(len(tpls))]
		strict := r.Bool()
		useEnv := r.P(3, 4)
		viaFile := r.Bool()
		if !c.Begin(fmt.Sprintf("cli: %q strict=%v env=%v file=%v", src, strict, useEnv, viaFile)) {
			continue
		}
		e := liquid.NewEngine()
		if strict {
			e.StrictVariables()
		}
		b := map[string]any{}
		if useEnv {
			for k, v := range envs {
				b[k] = v
			}
		}
		lib := core.Run(e, src, b)
		var args []string
		if useEnv {
			args = append(args, "--env")
		}
		if strict {
			args = append(args, "--strict")
		}
		cmd := exec.Command(bin, args...)
		if viaFile {
			fn := filepath.Join(dir, fmt.Sprintf("t%d.liquid", i))
			os.WriteFile(fn, []byte(src), 0o644)
			cmd = exec.Command(bin, append(args, fn)...)
		} else {
			cmd.Stdin = strings.NewReader(src)
		}
		cmd.Env = nil
		for k, v := range envs {
			cmd.Env = append(cmd.Env, k+"="+v)
		}
		var stdout, stderr bytes.Buffer
		cmd.Stdout, cmd.Stderr = &stdout, &stderr
		err := cmd.Run()
		c.Eval(2)
		c.Obs("cli_runs", 1)
		c.Distinct("cli", src, fmt.Sprint(strict, useEnv, viaFile), fmt.Sprint(envs))
		ok := lib.OK() && err == nil && stdout.String() == lib.Out || lib.Failed() && err != nil && stdout.Len() == 0
		if !ok {
			c.Violate("cli|"+resClass(lib), "the command-line tool and the library disagree (stdout must equal the library output; exit status 0 iff no error)",
				map[string]any{"source": src, "args": args, "via_file": viaFile, "env": envs, "library": lib.Brief(), "cli_stdout": core.Trunc(stdout.String(), 300), "cli_error": fmt.Sprint(err), "cli_stderr": core.Trunc(stderr.String(), 300)})
		}
	}
}

// c02Dates: the text a date string renders to must not depend on which other date strings the process
// parsed before it (fresh engines and fresh parses share every process-wide table and cache).
func c02Dates(c *core.Ctx) {
	layouts := []string{time.ANSIC, time.UnixDate, time.RubyDate, time.RFC822, time.RFC822Z, time.RFC850, time.RFC1123, time.RFC1123Z, time.RFC3339, "2006-01-02", "2006-01-02 15:04:05",
		"2006-01-02 15:04:05 -0700", "2006-01-02 15:04:05 MST", "Jan 2 2006", "January 2, 2006", "2 Jan 2006", "02 Jan 06 15:04 -0700", "Mon, 02 Jan 2006 15:04:05 -0700", "Mon Jan 2 15:04:05 -0700 2006", "Mon Jan _2 15:04:05 MST 2006"}
	zones := []*time.Location{time.UTC, time.FixedZone("MST", -7*3600), time.FixedZone("GMT", 0), time.FixedZone("+0015", 15*60), time.FixedZone("+0010", 10*60), time.FixedZone("", 15*60), time.FixedZone("", 0),
		time.FixedZone("", -7*3600), time.FixedZone("", 5*3600+1800), time.FixedZone("+0000", 0), time.FixedZone("+0023", 23*60)}
	mk := func(r *core.Rand) string {
		t := time.Date(2000+r.Intn(30), time.Month(1+r.Intn(12)), 1+r.Intn(28), r.Intn(24), r.Intn(60), r.Intn(60), 0, zones[r.Intn(len(zones))])
		return t.Format(layouts[r.Intn(len(layouts))])
	}
	tpls := []string{"{{ d | date: '%Y-%m-%d %H:%M:%S %z %Z' }}", "{{ d | date: '%s' }}|{{ d | date: '%a, %d %b %Y %T %z' }}", "{% assign x = d | date: '%H:%M %z' %}[{{ x }}]{{ d | date: '%j %U %Z' }}"}
	n := c.Pick(6000, 120000)
	for i := 0; i < n; i++ {
		if !c.Mine(i) {
			continue
		}
		r := c.Rand(i, 0xDA7E)
		d := mk(r)
		src := tpls[r.Intn(len(tpls))]
		if !c.Begin(fmt.Sprintf("date-history: %s d=%q", src, d)) {
			continue
		}
		e := liquid.NewEngine()
		results := map[string]string{}
		var first core.Res
		for h := 0; h < 4; h++ {
			// history h: 0..3 other date strings parsed first (on another engine: the state in question is process-wide)
			var hist []string
			for k := r.Intn(4); k > 0 && h > 0; k-- {
				o := mk(r)
				hist = append(hist, o)
				core.Run(liquid.NewEngine(), "{{ d | date: '%Y' }}", map[string]any{"d": o})
			}
			res := core.Run(e, src, map[string]any{"d": d})
			if h == 0 {
				first = res
			}
			if _, ok := results[res.Brief()]; !ok {
				results[res.Brief()] = fmt.Sprintf("after parsing %q", hist)
			}
		}
		c.Eval(4)
		c.Obs("date_history_cases", 1)
		c.Obs("executions_compared", 4)
		c.Distinct("date", src, d)
		if len(results) > 1 || first.Panic != "" {
			var ds []string
			for k, how := range results {
				ds = append(ds, how+" => "+core.Trunc(k, 200))
			}
			sort.Strings(ds)
			c.Violate("nondeterministic|date-history", "the same template and date string rendered differently depending on which date strings had been parsed earlier in the process",
				map[string]any{"source": src, "d": d, "results": ds})
		}
		if i%2003 == 1 {
			c.Sample(map[string]any{"source": src, "d": d, "result": first.Brief()})
		}
	}
}
