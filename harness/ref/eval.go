package ref

import (
	"math"
	"strings"
	"unicode/utf8"

	"verif/harness/gen"
)

type V = gen.V

// Tri is a three-valued truth: the properties may leave a result unspecified.
type Tri int

const (
	False Tri = iota
	True
	Unspec
)

func tri(b bool) Tri {
	if b {
		return True
	}
	return False
}

// Not negates, keeping Unspec.
func (t Tri) Not() Tri {
	switch t {
	case True:
		return False
	case False:
		return True
	}
	return Unspec
}

// Status of a model evaluation.
type Status int

const (
	OK     Status = iota // the model defines the value
	Err                  // the model says: this must be reported as an error
	Unsp                 // the properties do not determine the result
)

// Truthy: every value except nil and false.
func Truthy(v V) bool { return !(v.K == gen.KNil || v.K == gen.KBool && !v.B) }

const two53 = 1 << 53

// numCmp compares two numbers by numeric value; ok=false when an int beyond
// 2^53 meets a float (the property promises numeric comparison, but a float64
// conversion there is lossy and the statement does not say which way it goes).
func numCmp(a, b V) (int, bool) {
	if a.K == gen.KInt && b.K == gen.KInt {
		switch {
		case a.I < b.I:
			return -1, true
		case a.I > b.I:
			return 1, true
		}
		return 0, true
	}
	for _, x := range []V{a, b} {
		if x.K == gen.KInt && (x.I > two53 || x.I < -two53) {
			return 0, false
		}
	}
	fa, fb := a.Num(), b.Num()
	switch {
	case fa < fb:
		return -1, true
	case fa > fb:
		return 1, true
	}
	return 0, true
}

// Equal is == as the C09 statement defines it.
func Equal(a, b V) Tri {
	switch {
	case a.K == gen.KNil || b.K == gen.KNil:
		return tri(a.K == b.K)
	case a.IsNum() && b.IsNum():
		c, ok := numCmp(a, b)
		if !ok {
			return Unspec
		}
		return tri(c == 0)
	case a.K != b.K:
		return False // a value of one kind never equals a value of another
	case a.K == gen.KBool:
		return tri(a.B == b.B)
	case a.K == gen.KStr:
		return tri(a.S == b.S)
	case a.K == gen.KArr:
		if len(a.A) != len(b.A) {
			return False
		}
		res := True
		for i := range a.A {
			switch Equal(a.A[i], b.A[i]) {
			case False:
				return False
			case Unspec:
				res = Unspec
			}
		}
		return res
	}
	return Unspec // two maps: only reflexivity is promised, and identity is not visible here
}

// Less is < as the C09 statement defines it.
func Less(a, b V) Tri {
	switch {
	case a.K == gen.KNil || b.K == gen.KNil:
		return False
	case a.IsNum() && b.IsNum():
		c, ok := numCmp(a, b)
		if !ok {
			return Unspec
		}
		return tri(c < 0)
	case a.K == gen.KStr && b.K == gen.KStr:
		return tri(a.S < b.S)
	case a.K != b.K:
		return False // an ordering between unlike kinds is false
	}
	return Unspec // booleans, arrays, maps: not stated
}

// Contains is the contains operator.
func Contains(a, b V) Tri {
	switch a.K {
	case gen.KStr:
		if b.K == gen.KStr {
			return tri(strings.Contains(a.S, b.S))
		}
		if b.K == gen.KNil {
			return False // nil is no piece of text
		}
		return Unspec
	case gen.KArr:
		res := False
		for _, e := range a.A {
			switch Equal(e, b) {
			case True:
				return True
			case Unspec:
				res = Unspec
			}
		}
		return res
	case gen.KMap:
		if b.K == gen.KStr {
			_, ok := a.Get(b.S)
			return tri(ok)
		}
		if b.K == gen.KArr || b.K == gen.KMap {
			return Unspec
		}
		// the keys of a logical map are strings, and a value of one kind never equals a value of another
		return False
	}
	return Unspec
}

// Compare evaluates a comparison operator from Equal and Less.
func Compare(op string, a, b V) Tri {
	switch op {
	case "==":
		return Equal(a, b)
	case "!=":
		return Equal(a, b).Not()
	case "<":
		return Less(a, b)
	case ">":
		return Less(b, a)
	case "<=":
		return or3(Less(a, b), Equal(a, b))
	case ">=":
		return or3(Less(b, a), Equal(a, b))
	case "contains":
		return Contains(a, b)
	}
	return Unspec
}

func or3(x, y Tri) Tri {
	if x == True || y == True {
		return True
	}
	if x == Unspec || y == Unspec {
		return Unspec
	}
	return False
}

// Prop is property access x.name (C08).
func Prop(x V, name string) (V, Status) {
	switch x.K {
	case gen.KMap:
		if v, ok := x.Get(name); ok {
			return v, OK
		}
		if name == "size" {
			return gen.Int(int64(len(x.M))), OK
		}
		return gen.Nil, OK
	case gen.KArr:
		switch name {
		case "first":
			if len(x.A) > 0 {
				return x.A[0], OK
			}
			return gen.Nil, OK
		case "last":
			if len(x.A) > 0 {
				return x.A[len(x.A)-1], OK
			}
			return gen.Nil, OK
		case "size":
			return gen.Int(int64(len(x.A))), OK
		}
		return gen.Nil, OK
	case gen.KStr:
		if name == "size" {
			return gen.Nil, Unsp // size of a string as a property: not stated
		}
		return gen.Nil, OK
	}
	return gen.Nil, OK // property of a scalar or of nil
}

// Index is x[i] (C08).
func Index(x, i V) (V, Status) {
	switch x.K {
	case gen.KArr:
		switch i.K {
		case gen.KInt:
			n := i.I
			if n < 0 {
				n += int64(len(x.A))
			}
			if n >= 0 && n < int64(len(x.A)) {
				return x.A[n], OK
			}
			return gen.Nil, OK
		case gen.KFloat:
			return gen.Nil, Unsp
		}
		return gen.Nil, OK // non-numeric index
	case gen.KMap:
		if i.K == gen.KStr {
			if v, ok := x.Get(i.S); ok {
				return v, OK
			}
			if i.S == "size" {
				return gen.Nil, Unsp
			}
			return gen.Nil, OK
		}
		if i.K == gen.KInt || i.K == gen.KFloat || i.K == gen.KBool || i.K == gen.KNil {
			return gen.Nil, OK // the keys of a logical map are strings: a number, boolean or nil is a missing key
		}
		return gen.Nil, Unsp
	case gen.KStr:
		return gen.Nil, Unsp
	}
	return gen.Nil, OK
}

// RuneLen counts characters.
func RuneLen(s string) int { return utf8.RuneCountInString(s) }

// ExactInt reports whether f is a whole number that an int can hold exactly.
func ExactInt(f float64) bool { return f == math.Trunc(f) && math.Abs(f) <= two53 }
